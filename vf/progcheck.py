"""Shared helpers: model program <-> texts <-> pdpy11 run <-> comparison with the reference assembler."""
from . import driver, model, render


def tuplify(x):
    """JSON round trip turns tuples into lists; expressions/operands are compared and hashed as tuples"""
    if isinstance(x, dict):
        return {k: tuplify(v) for k, v in x.items()}
    if isinstance(x, list):
        items = [tuplify(v) for v in x]
        if any(isinstance(v, dict) for v in items):
            return items
        return tuple(items)
    return x


def case_of(prog, **extra):
    c = {"kind": "prog", "files": prog["files"], "mains": prog["mains"], "charset": prog.get("charset", "bk"),
         "blobs": {k: bytes(v).hex() for k, v in prog.get("blobs", {}).items()}}
    c.update(extra)
    return c


def prog_of(case):
    files = {}
    for k, v in case["files"].items():
        stmts = tuplify(v)
        files[k] = list(stmts) if not isinstance(stmts, list) else stmts
    return {"files": files, "mains": list(case["mains"]), "charset": case.get("charset", "bk"),
            "blobs": {k: bytes.fromhex(v) for k, v in case.get("blobs", {}).items()}}


def texts_of(prog, style=None):
    st = style or render.PLAIN
    return {p: render.render_file(s, st)[0] for p, s in prog["files"].items()}


def needs_fs(prog):
    def has_file_access(stmts):
        return any(s["k"] in ("include", "insert") or (s["k"] == "repeat" and has_file_access(s["body"])) for s in stmts)
    return len(prog["files"]) > len(prog["mains"]) or bool(prog.get("blobs")) or any(has_file_access(s) for s in prog["files"].values())


def run_pd(prog, texts=None, **kw):
    """assemble the program with pdpy11; returns (Outcome, root dir or '/vf')"""
    texts = texts or texts_of(prog)
    kw.setdefault("timeout", 10.0)
    if not needs_fs(prog):
        out = driver.assemble([("/vf/" + m, texts[m]) for m in prog["mains"]], charset=prog.get("charset", "bk"), **kw)
        return out, "/vf"
    tree = dict(texts)
    tree.update(prog.get("blobs", {}))
    return driver.assemble_tree(tree, prog["mains"], charset=prog.get("charset", "bk"), **kw)


def brief_texts(texts, limit=1500):
    s = ""
    for p, t in texts.items():
        s += f"--- {p}\n{t}"
    return s if len(s) <= limit else s[:limit] + "...[cut]"


def compare(r, out, texts, check_symbols=False, root="/vf"):
    """model Result vs pdpy11 Outcome -> None or (signature, message)"""
    if out.kind == "timeout":
        from .core import Inconclusive
        raise Inconclusive("time budget")
    if out.kind in ("crash", "timeout", "silent", "ok-with-errors"):
        return (f"{out.kind}" + (f":{out.exc[0]}@{out.exc[1]}" if out.exc else ""), f"{out.kind} {out.exc}\n{brief_texts(texts)}")
    if r.kind == "error":
        if out.kind == "ok":
            return ("accepted:" + r.errors[0], f"reference expects {r.errors}, pdpy11 assembled {len(out.code)} bytes\n{brief_texts(texts)}")
        got = set(out.error_ids())
        if not set(r.errors) & got:
            return ("wrong-error:" + r.errors[0], f"reference expects one of {r.errors}, pdpy11 reported {sorted(got)}\n{brief_texts(texts)}")
        return None
    if out.kind != "ok":
        return ("rejected:" + "+".join(sorted(set(out.error_ids()))), f"valid program rejected: {sorted(set(out.error_ids()))}\n{brief_texts(texts)}")
    if out.base != r.base:
        return ("base", f"base {out.base:o}, reference {r.base:o}\n{brief_texts(texts)}")
    if out.code != r.image:
        a, b = out.code, r.image
        i = next((i for i in range(min(len(a), len(b))) if a[i] != b[i]), min(len(a), len(b)))
        # name the statement at that offset
        where = ""
        for addr, size, path, s in r.places:
            if addr - r.base <= i < addr - r.base + max(size, 1):
                where = f" in {path}: {render.stmt_lines(s)[0].strip()}"
                kind = s["k"] + ("-" + s["d"] if "d" in s else "")
                break
        else:
            kind = "length"
        return (f"bytes:{kind}", f"image differs at offset {i}{where}: pdpy11 {a[i:i + 8].hex()} (len {len(a)}) vs reference {b[i:i + 8].hex()} (len {len(b)})\n{brief_texts(texts)}")
    if check_symbols and out.symbols is not None:
        for path, table in r.symbols.items():
            got = out.symbols.get(root.rstrip("/") + "/" + path, {})
            for name, v in table.items():
                if got.get(name) != v:
                    return ("symbol-value", f"symbol {name} of {path}: pdpy11 {got.get(name)!r}, reference {v}\n{brief_texts(texts)}")
    return None
