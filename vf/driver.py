"""Runs pdpy11 from the tree under test (in-process and as a CLI in a forked child)."""
import hashlib
import io
import os
import shutil
import signal
import sys
import tempfile
import traceback

from .core import REPO

_pd = None


def pd():
    """Import pdpy11 from REPO (never from an installed copy)."""
    global _pd
    if _pd is None:
        sys.dont_write_bytecode = True
        if sys.path[0] != REPO:
            sys.path.insert(0, REPO)
        for name in list(sys.modules):
            if name == "pdpy11" or name.startswith("pdpy11."):
                del sys.modules[name]
        import pdpy11._cli  # registers the 'bk' codec  # noqa
        import pdpy11
        here = os.path.realpath(pdpy11.__file__)
        if not here.startswith(os.path.realpath(REPO) + os.sep):
            raise RuntimeError(f"pdpy11 imported from {here}, not from {REPO}")
        import pdpy11.parser, pdpy11.compiler, pdpy11.reports, pdpy11.deferred, pdpy11.formats  # noqa

        class NS:
            pass
        ns = NS()
        ns.pkg = pdpy11
        ns.parser = pdpy11.parser
        ns.compiler = pdpy11.compiler
        ns.reports = pdpy11.reports
        ns.deferred = pdpy11.deferred
        ns.formats = pdpy11.formats
        ns.cli = pdpy11._cli
        ns.insns = pdpy11.insns
        _pd = ns
    return _pd


class CaseTimeout(BaseException):
    pass


_fired = [False]


_stack = [None]


def _alarm(signum, frame):
    _fired[0] = True
    # where was pdpy11 when the watchdog fired? (file, function) pairs, innermost last
    st = []
    f = frame
    while f is not None:
        st.append((os.path.basename(f.f_code.co_filename), f.f_code.co_name))
        f = f.f_back
    _stack[0] = st[::-1]
    raise CaseTimeout()


class Outcome:
    __slots__ = ("kind", "base", "code", "reports", "exc", "symbols", "emitted", "trace", "dirty")

    def __init__(self):
        self.kind = None
        self.base = None
        self.code = None
        self.reports = []
        self.exc = None
        self.symbols = None
        self.emitted = None
        self.trace = None
        self.dirty = None

    @property
    def ok(self):
        return self.kind == "ok"

    def error_ids(self):
        return [r[1] for r in self.reports if r[0] != "warning"]

    def warning_ids(self):
        return [r[1] for r in self.reports if r[0] == "warning"]

    def summary(self):
        d = {"kind": self.kind}
        if self.kind == "ok":
            d["base"] = self.base
            d["code"] = self.code.hex()
        else:
            d["errors"] = sorted(set(self.error_ids()))
        if self.exc:
            d["exc"] = list(self.exc)
        return d

    def same_result(self, other):
        if self.kind != other.kind:
            return False
        if self.kind == "ok":
            return self.base == other.base and self.code == other.code
        return True


def state_snapshot():
    p = pd()
    return (p.deferred.try_compute.depth,
            len(p.deferred.Awaiting.awaiting_stack),
            len(p.reports.handle_reports.handlers_stack))


def reset_state():
    p = pd()
    p.deferred.try_compute.depth = 0
    for d in p.deferred.Awaiting.awaiting_stack:
        d.is_awaiting = False
    del p.deferred.Awaiting.awaiting_stack[:]
    del p.reports.handle_reports.handlers_stack[:]


def crash_site(tb):
    """(innermost pdpy11 file:function, line) of a traceback."""
    site = None
    for frame, lineno in traceback.walk_tb(tb):
        fn = frame.f_code.co_filename
        if os.sep + "pdpy11" + os.sep in fn:
            site = f"{os.path.basename(fn)}:{frame.f_code.co_name}"
    return site or "outside-pdpy11"


DEFAULT_TIMEOUT = 30.0


def assemble(files, charset="bk", timeout=DEFAULT_TIMEOUT, want_symbols=False, repair=True,
             make_handler=None, trace=False):
    """files: list of (absolute-ish name, text). Mirrors what main_cli does."""
    p = pd()
    R = p.reports
    out = Outcome()
    recs = out.reports

    def handler(priority, identifier, *spans):
        sev = "warning" if priority is R.warning else ("critical" if priority is R.critical else "error")
        recs.append((sev, identifier, [
            (s[0].filename, s[0].pos, s[1].filename, s[1].pos, repr(s[0]), repr(s[1]), s[0].code) for s in spans
        ]))

    h = make_handler(handler) if make_handler else handler
    if timeout:
        old = signal.signal(signal.SIGALRM, _alarm)
        # repeating: code under test that swallows the exception once (a bare 'except:' in a retry loop) is interrupted again
        signal.setitimer(signal.ITIMER_REAL, timeout, 0.25)
    comp = None
    _fired[0] = False
    try:
        try:
            with R.handle_reports(h):
                parsed = [p.parser.parse(name, text) for name, text in files]
                comp = p.compiler.Compiler(output_charset=charset)
                if trace:
                    comp._verif_trace = []
                base, code = comp.compile_and_link_files(parsed)
            out.kind = "ok"
            out.base, out.code = base, code
        except R.UnrecoverableError:
            out.kind = "error" if any(r[0] != "warning" for r in recs) else "silent"
        except CaseTimeout:
            out.kind = "timeout"
            out.exc = ("CaseTimeout", "watchdog", "")
        except MemoryError:
            out.kind = "crash"
            out.exc = ("MemoryError", "address-space limit of the harness", "")
        except RecursionError as ex:
            out.kind = "crash"
            out.exc = ("RecursionError", crash_site(ex.__traceback__), "")
        except Exception as ex:  # the 'unexpected internal compiler error' path
            out.kind = "crash"
            out.exc = (type(ex).__name__, crash_site(ex.__traceback__), str(ex)[:200])
    finally:
        if timeout:
            signal.setitimer(signal.ITIMER_REAL, 0)
            signal.signal(signal.SIGALRM, old)
    if _fired[0] and out.kind != "ok":
        # the watchdog interrupted pdpy11 asynchronously; whatever exception surfaced is an artefact of that
        out.kind = "timeout"
        out.exc = ("CaseTimeout", "watchdog", _stack[0])
    if out.kind == "ok" and any(r[0] != "warning" for r in recs):
        out.kind = "ok-with-errors"  # success although an error was reported: never legitimate
    if comp is not None:
        out.emitted = list(comp.emitted_files)
        if trace:
            out.trace = (comp, getattr(comp, "_verif_trace", None))
        if want_symbols and out.kind == "ok":
            syms = {}
            try:
                for name, (_tok, value) in comp.symbols.items():
                    if name.startswith(".internal"):
                        num, _, nm = name[9:].partition(".")
                        fn = comp.internal_prefix_to_state[int(num)]["filename"]
                        syms.setdefault(fn, {})[nm.lower()] = p.deferred.wait(value)
            except Exception:  # noqa
                syms = None
            out.symbols = syms
    snap = state_snapshot()
    out.dirty = snap if snap != (0, 0, 0) else None
    if out.dirty and repair:
        reset_state()
    return out


# ---------------------------------------------------------------------------
# scratch directories

_scratch_root = None


def scratch_root():
    global _scratch_root
    if _scratch_root is None or not os.path.isdir(_scratch_root) or _scratch_owner != os.getpid():
        _new_root()
    return _scratch_root


_scratch_owner = None


def _new_root():
    global _scratch_root, _scratch_owner
    base = "/dev/shm" if os.path.isdir("/dev/shm") and os.access("/dev/shm", os.W_OK) else None
    _scratch_root = tempfile.mkdtemp(prefix="vf-", dir=base)
    _scratch_owner = os.getpid()
    import atexit
    root, owner = _scratch_root, _scratch_owner

    def cleanup():
        if os.getpid() == owner:
            shutil.rmtree(root, ignore_errors=True)
    atexit.register(cleanup)
    # multiprocessing children leave through os._exit: register there too
    try:
        from multiprocessing import util
        util.Finalize(None, cleanup, exitpriority=0)
    except Exception:  # noqa
        pass


class Scratch:
    """A private directory with a given tree; removed on exit."""

    _in_use = set()

    def __init__(self, tree=None, fixed=None):
        """fixed: a name; the directory then has the same path every time this process uses it (emptied first), so that state
        which pdpy11 might keep per file path between assemblies meets the next case's files.  Falls back to a unique directory
        while the fixed one is in use."""
        self.tree = tree or {}
        self.path = None
        self.fixed = fixed

    def __enter__(self):
        if self.fixed and self.fixed not in Scratch._in_use:
            Scratch._in_use.add(self.fixed)
            self.path = os.path.join(scratch_root(), "c-" + self.fixed)
            shutil.rmtree(self.path, ignore_errors=True)
            os.makedirs(self.path)
        else:
            self.fixed = None
            self.path = tempfile.mkdtemp(prefix="c-", dir=scratch_root())
        for rel, content in self.tree.items():
            full = os.path.join(self.path, rel)
            os.makedirs(os.path.dirname(full), exist_ok=True)
            if content is None:
                os.makedirs(full, exist_ok=True)
                continue
            mode = "wb" if isinstance(content, bytes) else "w"
            with open(full, mode, **({} if mode == "wb" else {"encoding": "utf-8", "newline": ""})) as f:
                f.write(content)
        return self

    def __exit__(self, *a):
        shutil.rmtree(self.path, ignore_errors=True)
        if self.fixed:
            Scratch._in_use.discard(self.fixed)

    def snapshot(self):
        snap = {}
        for root, dirs, files in os.walk(self.path):
            for d in dirs:
                full = os.path.join(root, d)
                snap[os.path.relpath(full, self.path) + "/"] = None
            for fn in files:
                full = os.path.join(root, fn)
                try:
                    with open(full, "rb") as f:
                        data = f.read()
                    st = os.stat(full)
                    snap[os.path.relpath(full, self.path)] = (len(data), hashlib.sha256(data).hexdigest(), st.st_mtime_ns)
                except OSError as ex:
                    snap[os.path.relpath(full, self.path)] = ("unreadable", str(ex), 0)
        return snap

    def read(self, rel):
        with open(os.path.join(self.path, rel), "rb") as f:
            return f.read()


def assemble_tree(tree, mains, charset="bk", **kw):
    """Write `tree` (rel path -> text/bytes) to a scratch dir and assemble files `mains`."""
    with Scratch(tree, fixed="tree") as sc:
        files = [(os.path.join(sc.path, m), tree[m]) for m in mains]
        out = assemble(files, charset=charset, **kw)
        out_root = sc.path
    return out, out_root


# ---------------------------------------------------------------------------
# CLI driver: forked child calling main_cli, exit status observed like a shell does

class CliResult:
    __slots__ = ("status", "stdout", "stderr", "before", "after", "signal")

    def internal_error(self):
        return b"unexpected internal compiler error" in self.stderr


def run_cli(sc, argv, stdin=b"", cwd=None, timeout=20, subprocess_mode=False, env_extra=None):
    """Run `pdpy11 argv` with cwd inside Scratch `sc`; returns CliResult."""
    pd()
    res = CliResult()
    cwd = cwd or sc.path
    res.before = sc.snapshot()
    io_dir = tempfile.mkdtemp(prefix="io-", dir=scratch_root())
    p_in, p_out, p_err = (os.path.join(io_dir, n) for n in ("in", "out", "err"))
    with open(p_in, "wb") as f:
        f.write(stdin)
    try:
        if subprocess_mode:
            import subprocess
            env = dict(os.environ)
            env["PYTHONPATH"] = REPO
            env["PYTHONDONTWRITEBYTECODE"] = "1"
            if env_extra:
                env.update(env_extra)
            with open(p_in, "rb") as fi, open(p_out, "wb") as fo, open(p_err, "wb") as fe:
                try:
                    cp = subprocess.run([sys.executable, "-m", "pdpy11"] + list(argv), stdin=fi, stdout=fo,
                                        stderr=fe, cwd=cwd, env=env, timeout=timeout)
                    res.status = cp.returncode
                except subprocess.TimeoutExpired:
                    res.status = "timeout"
            res.signal = None
        else:
            sys.stdout.flush()
            sys.stderr.flush()
            pid = os.fork()
            if pid == 0:
                code = 70
                try:
                    os.chdir(cwd)
                    fi = os.open(p_in, os.O_RDONLY)
                    fo = os.open(p_out, os.O_WRONLY | os.O_CREAT | os.O_TRUNC)
                    fe = os.open(p_err, os.O_WRONLY | os.O_CREAT | os.O_TRUNC)
                    os.dup2(fi, 0)
                    os.dup2(fo, 1)
                    os.dup2(fe, 2)
                    sys.stdin = io.TextIOWrapper(io.BufferedReader(io.FileIO(0, closefd=False)), encoding="utf-8")
                    sys.stdout = io.TextIOWrapper(io.BufferedWriter(io.FileIO(1, "w", closefd=False)), encoding="utf-8")
                    sys.stderr = io.TextIOWrapper(io.BufferedWriter(io.FileIO(2, "w", closefd=False)), encoding="utf-8", line_buffering=True)
                    sys.argv = ["pdpy11"] + list(argv)
                    signal.signal(signal.SIGALRM, signal.SIG_DFL)
                    signal.alarm(int(timeout))
                    import pdpy11.cli
                    try:
                        pdpy11.cli.main_cli()
                        code = 0
                    except SystemExit as ex:
                        if ex.code is None:
                            code = 0
                        elif isinstance(ex.code, int):
                            code = ex.code & 0xFF
                        else:
                            sys.stderr.write(str(ex.code) + "\n")
                            code = 1
                    except BaseException:  # what the interpreter would do: traceback, status 1
                        traceback.print_exc()
                        code = 1
                    try:
                        sys.stdout.flush()
                        sys.stderr.flush()
                    except Exception:  # noqa
                        pass
                finally:
                    os._exit(code)
            _, st = os.waitpid(pid, 0)
            if os.WIFSIGNALED(st):
                res.status = "timeout" if os.WTERMSIG(st) == signal.SIGALRM else f"signal{os.WTERMSIG(st)}"
            else:
                res.status = os.WEXITSTATUS(st)
        with open(p_out, "rb") as f:
            res.stdout = f.read()
        with open(p_err, "rb") as f:
            res.stderr = f.read()
    finally:
        shutil.rmtree(io_dir, ignore_errors=True)
    res.after = sc.snapshot()
    return res
