"""C14 - the 'bk' charset is a bijection consistent with ASCII and KOI8-R."""
import codecs as pycodecs

from hypothesis import strategies as st

from .. import core, driver, oracle

ID = "C14"
LEVEL = "exploration"
EXHAUSTIVE = True
RULE = ("exhaustive: all 256 byte values (decode, re-encode, distinctness, ASCII on 0x00-0x7E, KOI8-R on 0xC0-0xFF, and each "
        "character through '.ascii' and a 'c literal in a real assembly); all 0x110000 code points (encodable iff one of the 256 "
        "table characters or the documented alias U+00A4 -> 0x24; otherwise UnicodeEncodeError naming position and codec); every "
        "unencodable BMP code point (plus every 257th astral one, plus each table letter followed by one of 13 combining marks) in real "
        "assemblies in 4 (thorough: all 11) of the places where source characters are encoded - .ascii/.asciz with each quote, open and "
        "closed character literals, two-character literals, immediates, tape names - each of which must be refused with invalid-character; real command-line runs on four unencodable inputs (both report formats, UTF-8 and ASCII-only consoles, -o / make_raw, with and "
        "without an earlier good output in place) must fail and leave the outputs alone; random "
        "strings of <= 40 characters with offenders at drawn positions, directly and through '.ascii'/'.asciz'/'c programs. "
        "Non-trivial: every exhaustive case; random strings with >= 1 offender not at index 0 or >= 2 distinct encodable characters. "
        "Distinct = distinct byte / code point / string.")
ASSUMPTIONS = ["Python's own koi8-r codec is the KOI8-R reference", "U+00A4 is the only documented alias (-> 0x24)",
               "error position rule: start is the index of the first unencodable character, start < end <= len"]

ALIASES = {"¤": 0x24}
N_CP = 0x110000


def shards(tier):
    specs = [{"part": "bytes"}, {"part": "cli"}]
    n = 16
    for i in range(n):
        specs.append({"part": "codepoints", "lo": N_CP * i // n, "hi": N_CP * (i + 1) // n})
    for i in range(n):
        specs.append({"part": "asm-codepoints", "i": i, "n": n, "tier": tier})
    k = 8
    per = (2000 if tier == "quick" else 50000) // k
    for i in range(k):
        specs.append({"part": "strings", "i": i, "examples": per})
    return specs


def table():
    driver.pd()
    chars = [bytes([b]).decode("bk") for b in range(256)]
    return chars


def lit(c):
    """spell character c inside a double-quoted pdpy11 string"""
    if c == '"':
        return '\\"'
    if c == "\\":
        return "\\\\"
    return c


def run_shard(spec, ctx):
    driver.pd()
    part = spec["part"]
    if part == "bytes":
        chars = []
        for b in range(256):
            ctx.case(("byte", b), True, ["byte"], sample=f"byte 0x{b:02x}" if b in (0x24, 0x7f, 0xa0, 0xc0) else None)
            case = {"kind": "byte", "byte": b}
            for sig, msg in replay(case):
                ctx.fail(sig, msg, case)
            try:
                chars.append(bytes([b]).decode("bk"))
            except Exception:  # reported above
                chars.append(None)
        seen = {}
        for b, c in enumerate(chars):
            if c is not None and c in seen:
                ctx.fail("bytes:not-injective", f"bytes 0x{seen[c]:02x} and 0x{b:02x} both decode to {c!r}", {"kind": "byte", "byte": b})
            seen[c] = b
        # each character through the assembler: .ascii and 'c
        for b, c in enumerate(chars):
            if c is None or len(c) != 1:
                continue
            text = f'.ascii "{lit(c)}"\n'
            if c in "\r":
                continue  # a bare CR is a line-ending character for editors; not spelled raw
            case = oracle.expect_ok(oracle.single(text), bytes([b]))
            ctx.case(("ascii", b), True, ["ascii-byte"], sample=text if b in (0x41, 0xe1) else None)
            for sig, msg in oracle.check_expect(case, prefix="asm-ascii:"):
                ctx.fail(sig, f"byte 0x{b:02x} char {c!r}: {msg}", case)
            # the raw byte as a <n> chunk next to its own character: x, b, b
            text = f'.ascii "x"<{b:o}>"{lit(c)}"\n'
            case = oracle.expect_ok(oracle.single(text), bytes([0x78, b, b]))
            ctx.case(("chunk", b), True, ["ascii-chunk-byte"], sample=text if b == 0xa4 else None)
            for sig, msg in oracle.check_expect(case, prefix="asm-chunk:"):
                ctx.fail(sig, f"byte 0x{b:02x}: {msg}", case)
            # the character at the end of a tape name: the header carries its byte (then blanks)
            text = f'\tnop\n\tmake_wav "t.wav", "ab{lit(c)}"\n'
            out = driver.assemble([("/vf/c14t.mac", text)])
            got = out.emitted[0][4] if out.kind == "ok" and out.emitted else None
            ctx.case(("tape", b), True, ["tape-name-byte"], sample=text if b == 0x85 else None)
            if got != (b"ab" + bytes([b])).ljust(16, b" "):
                ctx.fail("asm-tape:name", f"byte 0x{b:02x} char {c!r} at the end of a tape name: header name {got!r} ({oracle.brief(out)})", oracle.expect_ok(oracle.single(text), b"\xa0\x00"))
            if c not in "\t\r\n":
                text = f".word '{lit(c) if c != chr(39) else chr(92) + chr(39)}\n"
                case = oracle.expect_ok(oracle.single(text), bytes([b, 0]))
                ctx.case(("char", b), True, ["charlit-byte"])
                for sig, msg in oracle.check_expect(case, prefix="asm-char:"):
                    ctx.fail(sig, f"byte 0x{b:02x} char {c!r}: {msg}", case)
    elif part == "codepoints":
        chars = table()
        enc = {c: b for b, c in enumerate(chars)}
        for cp in range(spec["lo"], spec["hi"]):
            c = chr(cp)
            want = enc.get(c, ALIASES.get(c))
            ctx.evaluations += 1
            bad = None
            try:
                got = c.encode("bk")
                if want is None:
                    bad = ("codepoints:accepted", f"U+{cp:04X} is not in the table but encodes to {got.hex()}")
                elif got != bytes([want]):
                    bad = ("codepoints:wrong-byte", f"U+{cp:04X} encodes to {got.hex()}, table says {want:02x}")
            except UnicodeEncodeError as ex:
                if want is not None:
                    bad = ("codepoints:refused", f"U+{cp:04X} is byte {want:02x} of the table but is refused")
                elif ex.encoding != "bk" or ex.start != 0 or not (0 < ex.end <= 1):
                    bad = ("codepoints:bad-error", f"U+{cp:04X}: error names encoding={ex.encoding!r} start={ex.start} end={ex.end}")
            except Exception as ex:  # noqa
                bad = ("codepoints:crash", f"U+{cp:04X}: {type(ex).__name__}: {ex}")
            if bad:
                ctx.fail(bad[0], bad[1], {"kind": "codepoint", "cp": cp})
        # distinct non-trivial: count by code point without hashing a million keys one by one
        for cp in range(spec["lo"], spec["hi"]):
            ctx.nontrivial.add(cp.to_bytes(8, "big"))
        ctx.extra["codepoints_checked"] = spec["hi"] - spec["lo"]
        ctx.classes["codepoint"] += spec["hi"] - spec["lo"]
        ctx.samples.append(f"U+{spec['lo']:04X}..U+{spec['hi'] - 1:04X} each encoded on its own")
    elif part == "cli":
        # "surfaces as an assembly error rather than as a wrong byte", seen from outside: real command-line runs (both report
        # formats, UTF-8 and ASCII-only consoles, -o and make_raw outputs, with and without a good output of an earlier run in
        # place) end with a non-zero status and leave no new or changed output behind
        sources = {"string": '\t.ascii "Прив\u0451т"\n', "char-literal": "\tmov #'\u20ac', r0\n", "tape-name": '\tnop\n\tmake_wav "t.wav", "ИМЯ-\u0451"\n',
                   "asciz-combining": '\t.asciz /и\u0306/\n'}
        for what, src in sources.items():
            for fmt in ("bare", "graphical"):
                for ioenc in ("utf-8", "ascii"):
                    for out_sel in ("o", "make_raw"):
                        for earlier in (False, True):
                            text = src + ('\tmake_raw "out.raw"\n' if out_sel == "make_raw" else "")
                            argv = ["p.mac", "--report-format", fmt] + (["-o", "out.raw"] if out_sel == "o" else [])
                            tree = {"p.mac": text}
                            if earlier:
                                tree["out.raw"] = b"good bytes of an earlier run"
                            with driver.Scratch(tree) as sc:
                                res = driver.run_cli(sc, argv, subprocess_mode=True, env_extra={"PYTHONIOENCODING": ioenc})
                                new = sorted(k for k in res.after if k not in res.before and not k.endswith("/"))
                                changed = sorted(k for k in res.after if k in res.before and res.after[k] != res.before[k])
                            key = (what, fmt, ioenc, out_sel, earlier)
                            ctx.case(key, True, ["cli-" + what, "cli-console-" + ioenc], sample=f"{argv} PYTHONIOENCODING={ioenc} on {text!r}" if key == ("string", "bare", "ascii", "make_raw", True) else None)
                            case = {"kind": "cli", "what": what, "fmt": fmt, "ioenc": ioenc, "out": out_sel, "earlier": earlier}
                            if res.status == 0 or new or changed:
                                ctx.fail(f"cli:{'status' if res.status == 0 else 'files'}:{what}", f"{argv} (PYTHONIOENCODING={ioenc}, {'with' if earlier else 'without'} an earlier out.raw) on {text!r}: "
                                         f"exit status {res.status}, new files {new}, changed files {changed}\n{res.stderr.decode('utf-8', 'replace')[-300:]}", case)
    elif part == "asm-codepoints":
        # every unencodable BMP code point, and every table character followed by a combining mark, through real assemblies in
        # every place where pdpy11 encodes source characters; each line of a batch must be refused with invalid-character
        import bisect
        chars = table()
        enc = set(chars) | set(ALIASES)
        items = [chr(cp) for cp in range(0x10000) if not 0xD800 <= cp <= 0xDFFF and chr(cp) not in enc]
        items += [chr(cp) for cp in range(0x10000, 0x110000, 257)]
        marks = [chr(m) for m in (0x300, 0x301, 0x302, 0x303, 0x306, 0x308, 0x30A, 0x30C, 0x327, 0x328, 0x338, 0x342, 0x345)]
        items += [c + m for c in chars if c and (c.isalpha() or c in "<=>;`") for m in marks]
        items = items[spec["i"]::spec["n"]]
        contexts = ['\t.ascii "{}"', "\t.asciz /a{}b/", "\t.word '{}", "\t.word '{}'", "\t.byte '{}'", "\tmov #'{}, r0", '\t.word "{}a', '\t.word "a{}"', "\t.ascii 'ab'<12>'{}'", '\tmake_wav "t.wav", "ab{}"', '\tmake_turbo_wav "t.wav", "{}ab"',
                    "\t.repeat 2 {{ .word '{}' }}", "\t.repeat 1 {{ .dword 1, '{} }}"]
        LINEBREAKS = "\n\r\x0b\x0c\x1c\x1d\x1e\x85\u2028\u2029"
        for b in range(0, len(items), 128):
            chunk = items[b:b + 128]
            lines = []
            for j, it in enumerate(chunk):
                which = range(len(contexts)) if spec["tier"] == "thorough" else [(b + j) % len(contexts), (b + j + 3) % len(contexts), (b + j + 7) % len(contexts), 9 + (b + j) % 2, 11 + (b + j) % 2]
                for w in which:
                    if len(it) > 1 and w in (2, 3, 4, 5, 6, 7, 11, 12):
                        continue        # a character literal holds one (or exactly two) characters
                    lines.append((it, w, contexts[w].format(it)))
            solo = [i for i, (it, w, line) in enumerate(lines) if any(ch in LINEBREAKS for ch in it)]
            batch = [i for i in range(len(lines)) if i not in set(solo)]
            text = "\n".join(lines[i][2] for i in batch) + "\n"
            out = driver.assemble([("/vf/c14a.mac", text)], timeout=60)
            suspects = list(solo)
            if out.kind != "error":
                suspects = list(range(len(lines)))
            else:
                starts = [0]
                for i in batch:
                    starts.append(starts[-1] + len(lines[i][2]) + 1)
                flagged = set()
                for sev, ident, spans in out.reports:
                    if sev != "warning" and ident == "invalid-character" and spans:
                        flagged.add(bisect.bisect_right(starts, spans[0][1]) - 1)
                suspects += [i for k_, i in enumerate(batch) if k_ not in flagged]
            for it, w, line in lines:
                ctx.case((it, w), True, [f"asm-context-{w}", "asm-combining" if len(it) > 1 else "asm-single"],
                         sample=line.strip() if it in ("\u212a", "\u0438\u0306", "\u20ac", "\u037e") and w in (0, 3) else None)
            for i in suspects:
                it, w, line = lines[i]
                case = oracle.expect_error(oracle.single(line + "\n"), ["invalid-character"])
                for sig, msg in oracle.check_expect(case, prefix=f"asm-codepoint:context-{w}:"):
                    ctx.fail(sig, f"{line!r} ({' '.join(f'U+{ord(ch):04X}' for ch in it)}): {msg}", case)
    elif part == "strings":
        chars = table()
        good = [c for c in chars if c is not None and len(c) == 1 and c not in '\r\x00'] + ["\\", "\\", '"']
        bad_pool = "ΩλЁё€∑あ🙂 ÿĀ§©"
        good_c = st.sampled_from(good)
        bad_c = st.sampled_from(bad_pool)
        strat = st.tuples(st.lists(st.one_of(good_c, good_c, good_c, bad_c), min_size=1, max_size=40),
                          st.sampled_from(["encode", ".ascii", ".asciz", "char"]))

        def check(v):
            cs, mode = v
            s = "".join(cs)
            if mode == "char":
                s = s[:1]
                if s in "'\t\\\"" or (ord(s) < 0x20) or s == " ":
                    s = "A"
            case = {"kind": "string", "s": s, "mode": mode}
            offenders = [i for i, c in enumerate(s) if c in bad_pool]
            nt = (bool(offenders) and offenders[0] > 0) or len(set(s) - set(bad_pool)) >= 2
            ctx.case((s, mode), nt, [mode + ("-reject" if offenders else "-ok")], sample={"s": s, "mode": mode})
            res = replay(case)
            if res:
                return (res[0][0], res[0][1], case)
            return None

        core.hyp_search(ctx, strat, check, spec["examples"], "c14-strings")


def replay(case):
    driver.pd()
    kind = case["kind"]
    if kind == "cli":
        src = {"string": '\t.ascii "Прив\u0451т"\n', "char-literal": "\tmov #'\u20ac', r0\n", "tape-name": '\tnop\n\tmake_wav "t.wav", "ИМЯ-\u0451"\n',
               "asciz-combining": '\t.asciz /и\u0306/\n'}[case["what"]]
        text = src + ('\tmake_raw "out.raw"\n' if case["out"] == "make_raw" else "")
        tree = {"p.mac": text}
        if case["earlier"]:
            tree["out.raw"] = b"good bytes of an earlier run"
        with driver.Scratch(tree) as sc:
            res = driver.run_cli(sc, ["p.mac", "--report-format", case["fmt"]] + (["-o", "out.raw"] if case["out"] == "o" else []), subprocess_mode=True, env_extra={"PYTHONIOENCODING": case["ioenc"]})
            new = sorted(k for k in res.after if k not in res.before and not k.endswith("/"))
            changed = sorted(k for k in res.after if k in res.before and res.after[k] != res.before[k])
        if res.status == 0 or new or changed:
            return [(f"cli:{'status' if res.status == 0 else 'files'}:{case['what']}", f"exit status {res.status}, new {new}, changed {changed}")]
        return []
    if kind in ("expect", "equiv"):
        return oracle.replay_generic(case)
    fails = []
    if kind == "byte":
        b = case["byte"]
        try:
            c = bytes([b]).decode("bk")
        except Exception as ex:  # noqa
            return [("bytes:decode-crash", f"byte 0x{b:02x}: {type(ex).__name__}: {ex}")]
        if not isinstance(c, str) or len(c) != 1:
            return [("bytes:not-one-char", f"byte 0x{b:02x} decodes to {c!r}")]
        try:
            back = c.encode("bk")
        except Exception as ex:  # noqa
            return [("bytes:no-roundtrip", f"byte 0x{b:02x} -> {c!r} cannot be encoded back: {ex}")]
        if back != bytes([b]):
            fails.append(("bytes:no-roundtrip", f"byte 0x{b:02x} -> {c!r} -> {back.hex()}"))
        if b <= 0x7E and c != chr(b):
            fails.append(("bytes:not-ascii", f"byte 0x{b:02x} decodes to {c!r}, ASCII says {chr(b)!r}"))
        if b >= 0xC0 and c != bytes([b]).decode("koi8-r"):
            fails.append(("bytes:not-koi8", f"byte 0x{b:02x} decodes to {c!r}, KOI8-R says {bytes([b]).decode('koi8-r')!r}"))
        return fails
    if kind == "codepoint":
        chars = table()
        enc = {c: b for b, c in enumerate(chars)}
        c = chr(case["cp"])
        want = enc.get(c, ALIASES.get(c))
        try:
            got = c.encode("bk")
            if want is None:
                return [("codepoints:accepted", f"U+{case['cp']:04X} encodes to {got.hex()}")]
            if got != bytes([want]):
                return [("codepoints:wrong-byte", f"U+{case['cp']:04X} encodes to {got.hex()} not {want:02x}")]
        except UnicodeEncodeError as ex:
            if want is not None:
                return [("codepoints:refused", f"U+{case['cp']:04X} refused")]
            if ex.encoding != "bk" or ex.start != 0 or not (0 < ex.end <= 1):
                return [("codepoints:bad-error", f"encoding={ex.encoding!r} start={ex.start} end={ex.end}")]
        return []
    if kind == "string":
        chars = table()
        enc = {c: b for b, c in enumerate(chars)}
        enc.update(ALIASES)
        s, mode = case["s"], case["mode"]
        offenders = [i for i, c in enumerate(s) if c not in enc]
        want = bytes(enc[c] for c in s) if not offenders else None
        if mode == "encode":
            try:
                got = s.encode("bk")
                if offenders:
                    return [("strings:accepted", f"{s!r} has offenders at {offenders} but encodes to {got.hex()}")]
                if got != want:
                    return [("strings:wrong-bytes", f"{s!r} -> {got.hex()} expected {want.hex()}")]
            except UnicodeEncodeError as ex:
                if not offenders:
                    return [("strings:refused", f"{s!r} is encodable but refused")]
                if ex.encoding != "bk":
                    return [("strings:bad-error", f"error names encoding {ex.encoding!r}")]
                if ex.start != offenders[0] or not (ex.start < ex.end <= len(s)):
                    return [("strings:bad-position", f"{s!r}: offenders at {offenders}, error says start={ex.start} end={ex.end}")]
                if ex.object != s:
                    return [("strings:bad-error", "error does not carry the string")]
            except Exception as ex:  # noqa
                return [("strings:crash", f"{type(ex).__name__}: {ex}")]
            return []
        if mode in (".ascii", ".asciz"):
            esc = s.replace("\\", "\\\\").replace('"', '\\"')
            text = f'{mode} "{esc}"\n'
            tail = b"\0" if mode == ".asciz" else b""
        else:
            text = f".word '{s}\n"
            tail = b"\0"
        v = oracle.single(text)
        c = oracle.expect_error(v, ["invalid-character"]) if offenders else oracle.expect_ok(v, want + tail)
        return oracle.check_expect(c, prefix="asm-string:")
    raise ValueError(kind)
