"""C07 - errors fail the build; warnings never change it."""
import os
import re

from hypothesis import strategies as st

from .. import core, driver, mutate, oracle
from . import c13

ID = "C07"
LEVEL = "fault_enumeration"
RULE = ("Hypothesis programs (1-3 files, optional include) with 0-3 faults planted from the catalogue of vf/mutate.py (%d error/critical "
        "kinds spanning parse-time, compile-time, link-time and critical aborts; %d warning-only kinds), run through the CLI in 4 "
        "(quick) / 8 (thorough) configurations each: report format graphical|bare x a drawn -W list (class names, all, default, no- "
        "forms, unknown names) with a drawn output selection (-o with/without .bin, sub-directory, --implicit-bin, make_bin/make_raw/"
        "make_wav with and without paths, several outputs, none) and optionally --lst. Oracles: (1) exit status != 0 iff >= 1 planted "
        "error-severity fault; (2) exit status != 0 iff the run printed >= 1 error-severity diagnostic; (3) on failure the directory "
        "snapshot is unchanged, on success exactly the predicted files exist and hold the container of the image; (4) across the "
        "configurations of one program: same status, same files, same bytes. Plus the output-phase fault class (unwritable output). "
        "Plus every catalogued kind on its own in a three-line program (both formats, with and without --lst). "
        "Non-trivial: >= 1 planted fault or >= 1 enabled warning that fires; distinct = (program, configuration).") % (len(mutate.FAULTS), len(mutate.WARNINGS))
ASSUMPTIONS = ["severity of each catalogued kind (E/C/W) as calibrated in vf/mutate.py", "a forked child calling main_cli shows the exit status a shell sees"]

HOST = ["\tmov #1, r0", "\tnop", "\t.word 1, 2, 3", "hq§:\tclr (r1)+", "d.q§:\tnop\ndc.q§ = 7\n\tmov #dc.q§, @#d.q§", "\tbr .+2", "kq§ = 12", "\tmov #kq§, r1", "\t.blkw 2", "; comment", "\tadd r1, r2"]
W_NAMES = ["all", "default", "no-all", "no-default", "implicit-operand", "no-implicit-operand", "suspicious-name", "excess-quote", "missing-newline", "meta-typo",
           "legacy-deferred", "implicit-index", "label-fixup", "no-label-fixup", "excess-hash", "no-excess-hash", "not-implemented", "no-not-implemented", "foo", "no-bar",
           "implicit-accumulator"]


@st.composite
def c07_case(draw):
    nfiles = draw(st.integers(1, 3))
    files = []
    uid = [0]
    planted = []
    nfaults = draw(st.sampled_from([0, 0, 1, 1, 1, 2, 3]))
    slots = [draw(st.integers(0, nfiles - 1 + 1)) for _ in range(nfaults)]     # index nfiles = the included file
    use_include = nfiles in slots or draw(st.integers(0, 3)) == 0
    for f in range(nfiles + (1 if use_include else 0)):
        lines = []
        for _ in range(draw(st.integers(1, 5))):
            uid[0] += 1
            lines.append(draw(st.sampled_from(HOST)).replace("§", str(uid[0])))
        # 'kq = ..' before its use in the same line pool: fine either way (forward references are legal)
        for slot in [s for s in slots if s == f]:
            fault = draw(st.sampled_from(mutate.FAULTS + mutate.WARNINGS + mutate.WARNINGS))
            if fault.where == "utf8" or fault.where == "top-after-link":
                fault = mutate.BY_KIND["division-by-zero"]
            if fault.kind in planted and "§" not in fault.text:
                continue        # the same name-less fault twice would define the same symbol twice
            uid[0] += 1
            pre, line, post = fault.render(100 + uid[0])
            line, _ = mutate.strip(line)
            at = draw(st.integers(0, len(lines)))
            if fault.where == "adjacent":
                lines[at:at] = pre + [line] + post
            else:
                lines[at:at] = [line]
                lines[0:0] = pre
                lines += post
            planted.append(fault.kind)
        files.append("\n".join(lines) + "\n")
    # 'kq§' names are per-line unique; undefined uses must not appear by accident: make every used kq defined
    fixed = []
    for text in files:
        for m in set(re.findall(r"#(kq\d+)", text)):
            if not re.search(rf"^{m} = ", text, flags=re.M):
                text = f"{m} = 7\n" + text
        fixed.append(text)
    files = fixed
    outputs = draw(st.lists(st.sampled_from(["o-bin", "o-raw", "o-sub", "implicit", "make_bin", "make_raw-path", "make_wav", "make_bin-path", "o-stdout"]), max_size=3, unique=True))
    if "o-stdout" in outputs:
        outputs = [o for o in outputs if o not in ("o-bin", "o-raw", "o-sub")]
    if "o-raw" in outputs and "o-bin" in outputs:
        outputs.remove("o-raw")
    if "o-sub" in outputs:
        outputs = [o for o in outputs if o not in ("o-bin", "o-raw")]
    lst = draw(st.booleans())
    nconf = 4
    configs = []
    for i in range(draw(st.sampled_from([4, 4, 8]))):
        configs.append({"format": draw(st.sampled_from(["graphical", "bare"])) if i > 1 else ["graphical", "bare"][i],
                        "W": draw(st.lists(st.sampled_from(W_NAMES), max_size=4))})
    # the identifiers of the planted faults, switched off by name in the first two configurations (an error is not a warning)
    for conf in configs[:2]:
        conf["W"] = conf["W"] + sorted({"no-" + mutate.BY_KIND[k].ident for k in planted})[:3]
    io_fault = draw(st.sampled_from([False] * 14 + [True]))
    if draw(st.sampled_from([False, False, True])):
        # no newline at the end of the last file (editors differ); sometimes a default-enabled warning sits on that last line
        last = files[-1].rstrip("\n")
        if draw(st.booleans()) and not any(mutate.BY_KIND[k].sev == "C" for k in planted):
            last += "\n\t.word"
            planted.append("word-without-operand")
        files[-1] = last
    # one of the files named on the command line cannot be read (it is not the last one): the build must fail as a whole
    bad_input = draw(st.sampled_from([None] * 12 + ["missing", "not-utf8"]))
    return {"kind": "c07", "files": files, "nmain": nfiles, "include": use_include, "planted": planted, "outputs": outputs, "lst": lst, "configs": configs,
            "io_fault": io_fault, "bad_input": bad_input}


def build(c):
    tree = {"out/": None}
    mains = []
    for i in range(c["nmain"]):
        name = f"p{i}.mac"
        tree[name] = c["files"][i]
        mains.append(name)
    if c["include"]:
        tree["lib/inc.mac"] = c["files"][c["nmain"]]
        tree[mains[0]] = tree[mains[0]] + ("" if tree[mains[0]].endswith("\n") else "\n") + "\t.even\n\t.include \"lib/inc.mac\"\n"
    argv = list(mains)
    if c.get("bad_input") == "missing":
        argv.insert(0, "nosuch.mac")
    elif c.get("bad_input") == "not-utf8":
        tree["koi.mac"] = "\tnop ; комментарий\n".encode("koi8-r")
        argv.insert(0, "koi.mac")
    expected = {}     # rel path -> format
    directives = ""
    for o in c["outputs"]:
        if o == "o-bin":
            argv += ["-o", "res.bin"]
            expected["res.bin"] = "bin"
        elif o == "o-raw":
            argv += ["-o", "res"]
            expected["res"] = "raw"
        elif o == "o-sub":
            argv += ["-o", "out/res.raw"]
            expected["out/res.raw"] = "raw"
        elif o == "o-stdout":
            argv += ["-o", "-"]        # the image goes to standard output (diagnostics of the graphical format go to stderr)
        elif o == "implicit":
            argv.append("--implicit-bin")
        elif o == "make_bin":
            directives += "\tmake_bin\n"
            expected["p0.bin"] = "bin"
        elif o == "make_bin-path":
            directives += "\tmake_bin \"out/made.bin\"\n"
            expected["out/made.bin"] = "bin"
        elif o == "make_raw-path":
            directives += "\tmake_raw \"made.raw\"\n"
            expected["made.raw"] = "raw"
        elif o == "make_wav":
            directives += "\tmake_wav \"tape.wav\", \"TAPE\"\n"
            expected["tape.wav"] = "bk_wav"
    if c.get("io_fault"):
        # the output phase itself fails: a directive naming a directory that does not exist (after the others)
        directives += "\tmake_raw \"missing-dir/x.raw\"\n"
    # output directives go in front: a critical fault later in the file must not hide them from a run that succeeds anyway
    tree[mains[0]] = directives + tree[mains[0]]
    has_o = any(o.startswith("o-") for o in c["outputs"])
    has_dir = any(o.startswith("make") for o in c["outputs"]) or c.get("io_fault")
    if "implicit" in c["outputs"] and not has_o and not has_dir:
        expected["p0.bin"] = "bin"
    if c["lst"]:
        argv.append("--lst")
    return tree, mains, argv, expected, has_o or has_dir or ("implicit" in c["outputs"])


ERR_BARE = re.compile(r"^.+?:\d+:\d+: Error: ", re.M)
ANSI = re.compile(r"\x1b\[[0-9;]*[A-Za-z]")


def printed_error(res, fmt):
    if fmt == "bare":
        return bool(ERR_BARE.search(res.stdout.decode("utf-8", "replace")))
    return bool(re.search(r"^Error in ", ANSI.sub("", res.stderr.decode("utf-8", "replace")), re.M))


def judge(c):
    tree, mains, argv0, expected, any_output = build(c)
    sev = [mutate.BY_KIND[k].sev for k in c["planted"]]
    must_fail = any(s in ("E", "C") for s in sev) or bool(c.get("io_fault")) or bool(c.get("bad_input"))
    results = []
    fails = []
    info = {"status": None, "fired_warning": False}
    for conf in c["configs"]:
        with driver.Scratch(tree) as sc:
            root = sc.path
            argv = argv0 + ["--report-format", conf["format"]] + sum((["-W", w] for w in conf["W"]), [])
            res = driver.run_cli(sc, argv)
            new = {k for k in res.after if k not in res.before and not k.endswith("/")}
            changed = {k for k in res.after if k in res.before and res.after[k] != res.before[k]}
            contents = {k: sc.read(k) for k in new}
            if "o-stdout" in c["outputs"] and conf["format"] == "graphical":
                contents["<stdout>"] = res.stdout
            tag = f"format={conf['format']} -W {conf['W']}"
            if res.internal_error():
                return [("internal-error", f"{tag}: internal compiler error\n{res.stderr.decode('utf-8', 'replace')[-600:]}\n--- p0.mac\n{tree['p0.mac']}")], info
            if isinstance(res.status, str):
                raise core.Inconclusive("cli timeout")
            info["status"] = res.status
            if "Warning" in ANSI.sub("", res.stderr.decode("utf-8", "replace")) or b": Warning: " in res.stdout:
                info["fired_warning"] = True
            # (1) model iff
            if must_fail and res.status == 0:
                fails.append(("error-did-not-fail", f"{tag}: planted {c['planted']}{' + unwritable output' if c.get('io_fault') else ''} but exit status 0"))
            if not must_fail and res.status != 0:
                fails.append(("warning-or-clean-failed", f"{tag}: planted {c['planted']} (no error-severity fault) but exit status {res.status}\n"
                              f"{(res.stdout + res.stderr).decode('utf-8', 'replace')[-500:]}"))
            # (2) observation iff
            pe = printed_error(res, conf["format"])
            if c.get("bad_input"):
                pe = pe or b"Could not read source file" in res.stderr or b"is not in UTF-8" in res.stderr
            if (res.status != 0) != pe and not fails:
                fails.append(("status-vs-diagnostics", f"{tag}: exit status {res.status} but {'an' if pe else 'no'} error diagnostic was printed\n"
                              f"{(res.stdout + res.stderr).decode('utf-8', 'replace')[-500:]}"))
            # (3) files
            if res.status != 0:
                if new or changed:
                    fails.append(("files-on-failure" + (":io" if c.get("io_fault") else ""), f"{tag}: run failed (exit {res.status}) but created {sorted(new)} / modified {sorted(changed)}"))
            elif not fails:
                want = set(expected)
                lsts = {k for k in new if k.endswith(".lst")}
                if new - lsts != want or changed:
                    fails.append(("files-on-success", f"{tag}: created {sorted(new)}, expected {sorted(want)} (+ listing); modified {sorted(changed)}"))
                if c["lst"] and any_output and len(lsts) != 1:
                    fails.append(("listing-on-success", f"{tag}: --lst with outputs {sorted(want)} produced listings {sorted(lsts)}"))
                if (not c["lst"] or not any_output) and lsts:
                    fails.append(("listing-unrequested", f"{tag}: listing {sorted(lsts)}"))
            if fails:
                return [(s, m + f"\n--- p0.mac\n{tree['p0.mac']}") for s, m in fails], info
            results.append((conf, res.status, new, contents))
    # (4) metamorphic across configurations
    c0, s0, n0, b0 = results[0]
    for conf, s, n, b in results[1:]:
        if s != s0:
            return [("config-changes-status", f"exit status {s0} with {c0} but {s} with {conf}\n--- p0.mac\n{tree['p0.mac']}")], info
        if n != n0:
            return [("config-changes-files", f"files {sorted(n0)} with {c0} but {sorted(n)} with {conf}")], info
        if "<stdout>" in b0 and "<stdout>" in b and s0 == 0 and b0["<stdout>"] != b["<stdout>"]:
            return [("config-changes-stdout-image", f"the image written to standard output differs between {c0} ({b0['<stdout>'][:24].hex()}...) and {conf} ({b['<stdout>'][:24].hex()}...)\n--- p0.mac\n{tree['p0.mac']}")], info
        for k in n0:
            if b0[k] != b[k] and not k.endswith(".lst"):
                return [("config-changes-bytes", f"{k} differs between {c0} and {conf}")], info
            if k.endswith(".lst") and normalize_lst(b0[k]) != normalize_lst(b[k]):
                return [("config-changes-listing", f"{k} differs between {c0} and {conf}")], info
    # content of the outputs against an in-process assembly of the same sources
    if s0 == 0 and (expected or "o-stdout" in c["outputs"]):
        with driver.Scratch(tree) as sc:
            files = [(os.path.join(sc.path, m), tree[m]) for m in mains]
            ref = driver.assemble(files)
        if ref.kind == "ok":
            for conf, s_, n_, b_ in results:
                if "<stdout>" in b_ and b_["<stdout>"] != ref.code:
                    return [("content:stdout-image", f"-o - with {conf}: standard output holds {b_['<stdout>'][:24].hex()}... ({len(b_['<stdout>'])} bytes), the image is {ref.code[:24].hex()}... ({len(ref.code)} bytes)")], info
            for k, fmt in expected.items():
                name = b"TAPE".ljust(16) if fmt == "bk_wav" else None
                for sig, msg in c13.judge_blob(fmt, b0[k], ref.base, ref.code, name):
                    return [("content:" + sig, f"{k}: {msg}")], info
    return [], info


def normalize_lst(b):
    # the listing names files by absolute path: scratch directories differ between runs
    return re.sub(rb"/[^\n]*/c-[a-z0-9_]+/", b"/ROOT/", b)


def shards(tier):
    k = 16
    per = (6000 if tier == "quick" else 100000) // 4 // k
    return [{"part": "random", "i": i, "examples": max(per, 10)} for i in range(k)] + [{"part": "every-kind", "i": i, "n": 4} for i in range(4)]


def run_shard(spec, ctx):
    if spec["part"] == "every-kind":
        # every catalogued kind on its own in a small program: both report formats, with and without a listing
        kinds = [f for f in mutate.FAULTS + mutate.WARNINGS if f.where not in ("utf8", "top-after-link")]
        for j, f in enumerate(kinds):
            if j % spec["n"] != spec["i"]:
                continue
            pre, line, post = f.render(900 + j)
            line, _ = mutate.strip(line)
            lines = ["\tnop", f"hq{j}:\tclr (r1)+"]
            if f.where == "adjacent":
                lines[1:1] = pre + [line] + post
            else:
                lines[1:1] = [line]
                lines[0:0] = pre
                lines += post
            for lst in (False, True):
                c = {"kind": "c07", "files": ["\n".join(lines) + "\n"], "nmain": 1, "include": False, "planted": [f.kind], "outputs": ["o-bin"], "lst": lst,
                     "configs": [{"format": "graphical", "W": []}, {"format": "bare", "W": ["all"]}], "io_fault": False, "bad_input": None}
                fails, info = judge(c)
                ctx.case(repr(c), True, ["every-kind", "sev-" + f.sev, "kind:" + f.kind, "status-" + str(info["status"])], sample={"planted": [f.kind], "lst": lst, "p0": c["files"][0]} if j % 37 == 5 and lst else None,
                         evaluations=2)
                for sig, msg in fails[:1]:
                    ctx.fail(sig + ":" + f.kind, msg, c)
        return

    def check(c):
        fails, info = judge(c)
        sev = [mutate.BY_KIND[k].sev for k in c["planted"]]
        labels = [f"faults-{len(c['planted'])}", "status-" + str(info["status"]), f"files-{c['nmain']}", "include" if c["include"] else "no-include",
                  "lst" if c["lst"] else "no-lst", f"outputs-{len(c['outputs'])}"] + ["sev-" + s for s in sorted(set(sev))] + (["io-fault"] if c.get("io_fault") else []) + (["unreadable-input-" + c["bad_input"]] if c.get("bad_input") else [])
        labels += ["kind:" + k for k in c["planted"]]
        nt = bool(c["planted"]) or info["fired_warning"]
        ctx.case(repr(c), nt, labels, sample={"planted": c["planted"], "outputs": c["outputs"], "configs": c["configs"][:2], "p0": c["files"][0][:300]} if ctx.evaluations % 120 == 8 else None,
                 evaluations=len(c["configs"]))
        if fails:
            return (fails[0][0], fails[0][1], c)
        return None
    core.hyp_search(ctx, c07_case(), check, spec["examples"], "c07")


def finalize(tier, classes, extra):
    kinds = sorted(k[5:] for k in classes if k.startswith("kind:"))
    extra["fault_kinds_exercised"] = len(kinds)
    extra["fault_kinds_catalogue"] = len(mutate.FAULTS) + len(mutate.WARNINGS)


def replay(case):
    if case["kind"] == "c07":
        return judge(case)[0]
    return oracle.replay_generic(case)
