"""C05 - expression values follow the documented arithmetic (differential against R2)."""
import struct

from hypothesis import strategies as st

from .. import core, driver, oracle, render
from ..ref import expr as X

ID = "C05"
LEVEL = "exploration"
RULE = ("Hypothesis expression trees up to depth 6 over all 12 infix and 3+1 prefix operators (~ also spelled ^C), rendered with the "
        "minimum grouping C precedence and left associativity require (plus drawn redundant grouping in ( ), < > or ^x..x style) and "
        "drawn literal spellings; leaves: constants (small, 16-bit and 32-bit boundaries, negative), symbols defined before or after "
        "use (also chains), labels and '.', 'c \"cc and ^R literals; contexts .dword / .word / immediate / index, two programs in five as the body of a .repeat 2 / 3 whose copies "
        "each evaluate at their own '.'; planted /0, %0, "
        "negative shift counts and 8/9 digit strings must be refused, |v| >= 2^32 must be refused. Plus every ordered pair of infix "
        "operators adjacent without brackets over a fixed operand set (exhaustive). Non-trivial: depth >= 2 with >= 2 distinct "
        "operators, or an error-class case; distinct = distinct rendered expression.")
ASSUMPTIONS = ["vf/ref/expr.py (Python big integers; / and % floor; _ shifts left for non-negative counts, right otherwise)",
               "'.dword v' stores v mod 2^32, high word first, when |v| < 2^32"]

PER_PROGRAM = 8
M32 = 1 << 32

small = st.integers(0, 64)
bound16 = st.sampled_from([0o77777, 0o100000, 0o177777, 0o200000, 255, 256, 0o177776])
bound32 = st.sampled_from([(1 << 31) - 1, 1 << 31, (1 << 32) - 1, 1 << 32, (1 << 32) + 1])
CHARS = "ABCxyz019#%&*+=?@[]^_{}|~<>()!$.,:;-"
R50 = "ABCXYZ$.%0179"


def numleaf():
    return st.one_of(small, small, small, bound16, bound32, st.integers(0, 0o177777), st.integers(0, M32)).flatmap(
        lambda v: st.sampled_from([("num", v), ("num", v), ("num", -v)]))


SYMS = ["k0", "k1", "k2", "k3", "k4", "k5", "lab0", "lab1", "k6", "k7", "k6", "k7"]


def leaf():
    return st.one_of(
        numleaf(), numleaf(),
        st.sampled_from(SYMS).map(lambda n: ("sym", n)),
        st.just(("dot",)),
        st.sampled_from(CHARS).map(lambda c: ("chr", c)),
        st.tuples(st.sampled_from(CHARS), st.sampled_from(CHARS)).map(lambda t: ("chr2", t[0] + t[1])),
        st.text(R50, min_size=1, max_size=3).map(lambda s: ("r50", s)),
    )


def count_leaf():
    """right operand of a shift: a small count, spelled as literal, symbol or sum"""
    lit = st.integers(-8, 40).map(lambda v: ("num", v))
    nonneg = st.integers(0, 40).map(lambda v: ("num", v))
    return st.one_of(nonneg, nonneg, nonneg, lit, st.sampled_from([("sym", "k4"), ("sym", "k4"), ("sym", "k5")]),
                     st.tuples(nonneg, nonneg).map(lambda t: ("bin", "+", t[0], ("bin", "-", t[1], t[1]))), count_leaf_nonneg(), count_leaf_nonneg())


def count_leaf_nonneg():
    nonneg = st.integers(0, 40).map(lambda v: ("num", v))
    tiny = st.integers(0, 5).map(lambda v: ("num", v))
    pos = st.integers(1, 9).map(lambda v: ("num", v))
    # counts spelled with the operators that bind tighter than a shift, so that 'a << b % c' etc. occur without brackets
    return st.one_of(nonneg, nonneg, st.just(("sym", "k4")),
                     st.tuples(nonneg, nonneg).map(lambda t: ("bin", "+", t[0], ("bin", "-", t[1], t[1]))),
                     st.tuples(nonneg, pos).map(lambda t: ("bin", "%", t[0], t[1])),
                     st.tuples(nonneg, pos).map(lambda t: ("bin", "/", t[0], t[1])),
                     st.tuples(tiny, tiny).map(lambda t: ("bin", "*", t[0], t[1])),
                     st.tuples(nonneg, tiny).map(lambda t: ("bin", "-", ("bin", "+", t[0], t[1]), t[1])),
                     st.tuples(st.integers(0, 30), st.integers(0, 9)).map(lambda t: ("bin", "-", ("num", t[0] + t[1]), ("num", t[1]))))


@st.composite
def tree(draw, depth):
    if depth == 0 or draw(st.integers(0, 5)) == 0:
        return draw(leaf())
    kind = draw(st.integers(0, 9))
    if kind == 0:
        return ("un", draw(st.sampled_from(["-", "~", "+", "~"])), draw(tree(depth - 1)))
    op = draw(st.sampled_from(X.INFIX))
    a = draw(tree(depth - 1))
    if op in ("<<", ">>"):
        b = draw(count_leaf_nonneg())
    elif op == "_":
        b = draw(count_leaf())
    else:
        b = draw(tree(depth - 1))
    return ("bin", op, a, b)


@st.composite
def planted(draw, depth):
    """a tree with one deliberately erroneous node"""
    good = draw(tree(max(depth - 1, 1)))
    k = draw(st.integers(0, 4))
    zero = draw(st.sampled_from([("num", 0), ("bin", "-", ("sym", "k1"), ("sym", "k1")), ("bin", "*", ("num", 0), ("dot",))]))
    if k == 0:
        bad = ("bin", "/", good, zero)
    elif k == 1:
        bad = ("bin", "%", good, zero)
    elif k == 2:
        bad = ("bin", "<<", good, ("num", -draw(st.integers(1, 9))))
    elif k == 3:
        bad = ("bin", ">>", good, ("num", -draw(st.integers(1, 9))))
    else:
        bad = ("bin", "+", good, ("bad8", draw(st.sampled_from(["8", "19", "780", "99", "1238"]))))
    if draw(st.booleans()):
        return ("bin", draw(st.sampled_from(["+", "*", "&", "|"])), bad, draw(leaf()))
    return bad


@st.composite
def program(draw):
    n = draw(st.integers(1, PER_PROGRAM))
    items = []
    for _ in range(n):
        ctx = draw(st.sampled_from(["dword", "dword", "dword", "word", "imm", "index"]))
        if draw(st.integers(0, 9)) == 0:
            e = draw(planted(draw(st.integers(1, 5))))
        else:
            e = draw(tree(draw(st.integers(1, 6))))
        items.append([ctx, e, draw(st.integers(0, 9))])
    consts = {
        "k0": draw(st.integers(0, 64)), "k1": draw(st.integers(-64, 64)), "k2": draw(st.sampled_from([0o177777, 0o100000, 65536, 1 << 31, -(1 << 31)])),
        "k3": draw(st.integers(-M32, M32)), "k4": draw(st.integers(0, 40)), "k5": draw(st.integers(-8, 8)),
    }
    consts["k6"] = draw(st.integers(-9, 9))   # k6 = lab1 + that: an address-valued constant (a forward reference when defined first)
    consts["k7"] = draw(st.integers(-9, 9))   # k7 = lab0 + that
    where = {k: draw(st.booleans()) for k in consts}          # defined before use?
    chain = draw(st.booleans())                                 # k0 spelled through k1 (k0 = k1 + delta)
    base = draw(st.sampled_from([None, None, 0, 0o40000, 0o157776, 0o2]))
    ints = draw(st.lists(st.integers(0, 255), min_size=1, max_size=40))
    rules = draw(st.sets(st.sampled_from(["radix", "case-radix", "case-hexdigit", "grouping", "redundant-group", "or-bang", "inv-caret",
                                           "blanks", "case-symbol", "case-directive"]), max_size=6))
    # the statements may form the body of a .repeat: every copy evaluates the same text at its own '.'
    nrep = draw(st.sampled_from([1, 1, 1, 2, 3]))
    # a faulty definition nothing (or nothing that matters) refers to: it is evaluated at the very end of the build
    unused = None
    if draw(st.integers(0, 5)) == 0:
        unused = {"fault": draw(st.sampled_from(["div0", "mod0", "negshift", "digit89", "digit89-bare", "fine"])), "dep_below": draw(st.booleans()),
                  "use": draw(st.sampled_from(["none", "none", "cancel", "times0"])), "dep_first": draw(st.booleans())}
    return {"kind": "c05", "items": items, "consts": consts, "where": where, "chain": chain, "base": base, "ints": ints,
            "rules": sorted(rules), "rep": nrep, "unused": unused}


class Env(X.Env):
    charset = "ascii"

    def __init__(self, syms, dot):
        self.syms = syms
        self._dot = dot

    def sym(self, name):
        return X.const(self.syms[name])

    def dot(self):
        return X.const(self._dot)


def tup(e):
    return tuple(tup(x) if isinstance(x, list) else x for x in e)


def build(case):
    """-> (text, expected image or None, expected error ids, per-item info)"""
    style = render.Style(case["ints"], case["rules"])
    base = case["base"]
    B = 0o1000 if base is None else base
    consts = dict(case["consts"])
    pre, post, body = [], [], []
    if base is not None:
        pre.append({"k": "link", "e": ("num", base)})
    for k, v in consts.items():
        e = ("num", v)
        if k in ("k6", "k7"):
            e = ("bin", "+" if v >= 0 else "-", ("sym", "lab1" if k == "k6" else "lab0"), ("num", abs(v)))
        if k == "k0" and case["chain"]:
            e = ("bin", "+", ("sym", "k1"), ("num", v - consts["k1"]))
        (pre if case["where"][k] else post).append({"k": "assign", "name": k, "e": e})
    # layout: sizes are static
    sizes = {"dword": 4, "word": 2, "imm": 4, "index": 4}
    addr = B
    addrs = []
    for ctx, e, _ in case["items"]:
        addrs.append(addr)
        addr += sizes[ctx]
    nrep = case.get("rep", 1)
    span = addr - B
    addr = B + nrep * span
    syms = dict(consts)
    syms["lab0"] = B
    syms["lab1"] = addr
    syms["k6"] = addr + consts["k6"]
    syms["k7"] = B + consts["k7"]
    image = b""
    errors = set()
    info = []
    body.append({"k": "label", "name": "lab0"})
    inner = body
    if nrep > 1:
        inner = []
        body.append({"k": "repeat", "e": ("num", nrep), "body": inner})
    later = []      # (ctx, final expression, address in the first copy): evaluated again for the other copies
    for (ctx, e, wrapsel), a in zip(case["items"], addrs):
        e = tup(e)
        env = Env(syms, a)
        limit = M32 if ctx == "dword" else (1 << 16)
        kind = None
        try:
            v = X.ev_int(e, env)
        except X.EvalError as ex:
            kind = ex.kind
            v = None
        if v is not None and abs(v) >= limit and not (ctx == "dword" and wrapsel == 0):
            # reduce into range so that the exact big-integer value underneath is still what is tested
            e = ("bin", "&", e, ("num", limit - 1)) if wrapsel % 2 else ("bin", "%", e, ("num", 65521 if limit == (1 << 16) else 4294967291))
            v = X.ev_int(e, env)
        if v is not None and abs(v) >= limit:
            kind = "value-out-of-bounds"
        if kind:
            errors.add(kind)
        later.append((ctx, e, a, limit))
        if ctx == "dword":
            inner.append({"k": "data", "d": "dword", "es": [e]})
            if v is not None:
                image += struct.pack("<HH", (v >> 16) & 0xFFFF, v & 0xFFFF)
        elif ctx == "word":
            inner.append({"k": "data", "d": "word", "es": [e]})
            if v is not None:
                image += struct.pack("<H", v & 0xFFFF)
        elif ctx == "imm":
            inner.append({"k": "insn", "mn": "mov", "ops": [("imm", e), ("reg", 1)]})
            if v is not None:
                image += struct.pack("<HH", 0o012701, v & 0xFFFF)
        else:
            inner.append({"k": "insn", "mn": "clr", "ops": [("idx", 2, e)]})
            if v is not None:
                image += struct.pack("<HH", 0o005062, v & 0xFFFF)
        info.append((ctx, e, v, kind))
    for copy in range(1, nrep):
        for ctx, e, a, limit in later:
            try:
                v = X.ev_int(e, Env(syms, a + copy * span))
            except X.EvalError as ex:
                errors.add(ex.kind)
                v = None
            if v is not None and abs(v) >= limit:
                errors.add("value-out-of-bounds")
                v = None
            if v is not None:
                image += {"dword": struct.pack("<HH", (v >> 16) & 0xFFFF, v & 0xFFFF), "word": struct.pack("<H", v & 0xFFFF),
                          "imm": struct.pack("<HH", 0o012701, v & 0xFFFF), "index": struct.pack("<HH", 0o005062, v & 0xFFFF)}[ctx]
            info.append((ctx, e, v, None))
    body.append({"k": "label", "name": "lab1"})
    un = case.get("unused")
    if un:
        z = ("sym", "zq")
        f = un["fault"]
        e = {"div0": ("bin", "/", ("num", 7), z), "mod0": ("bin", "%", ("num", 7), z), "negshift": ("bin", "<<", ("num", 1), ("bin", "-", z, ("num", 1))),
             "digit89": ("bin", "+", z, ("raw", "19")), "digit89-bare": ("raw", "19"), "fine": ("bin", "+", z, ("num", 17))}[f]
        if un["dep_first"] and f in ("div0", "mod0"):
            e = ("bin", "+", z, e)
        udef = {"k": "assign", "name": "uq", "e": e}
        zdef = {"k": "assign", "name": "zq", "e": ("num", 0)}
        if un["dep_below"]:
            pre.append(udef)
            post.append(zdef)
        else:
            pre.append(zdef)
            pre.append(udef)
        if f != "fine":
            errors.add({"div0": "arithmetic-error", "mod0": "arithmetic-error", "negshift": "arithmetic-error", "digit89": "invalid-number", "digit89-bare": "invalid-number"}[f])
        if un["use"] != "none":
            ue = ("bin", "-", ("sym", "uq"), ("sym", "uq")) if un["use"] == "cancel" else ("bin", "*", ("num", 0), ("sym", "uq"))
            body.append({"k": "data", "d": "word", "es": [ue]})
            image += b"\0\0"
    text, _ = render.render_file(pre + body + post, style)
    return text, (None if errors else image), errors, info, sorted(style.used)


def adjacent_pairs(e, acc):
    """ordered pairs of infix operators that end up adjacent without brackets (canonical rendering)"""
    def flat(e):
        if e[0] != "bin":
            if e[0] == "un":
                adjacent_pairs(e[2], acc)
            return []
        op, a, b = e[1], e[2], e[3]
        p = X.PREC[op]
        left = flat(a) if a[0] == "bin" and X.PREC[a[1]] <= p else (adjacent_pairs(a, acc) or [])
        right = flat(b) if b[0] == "bin" and X.PREC[b[1]] < p else (adjacent_pairs(b, acc) or [])
        return left + [op] + right
    seq = flat(e)
    for x, y in zip(seq, seq[1:]):
        acc.add((x, y))
    return None


def ops_in(e):
    return {n[1] for n in X.walk(e) if n[0] in ("bin", "un")}


def judge(case, built=None):
    text, image, errors, info, used = built or build(case)
    out = driver.assemble([("/vf/c05.mac", text)])
    if out.kind in ("crash", "timeout", "silent", "ok-with-errors"):
        return [(f"{out.kind}" + (f":{out.exc[0]}@{out.exc[1]}" if out.exc else ""), f"{out.kind} {out.exc} on {text!r}")]
    if errors:
        if out.kind == "ok":
            return [("accepted:" + "+".join(sorted(errors)), f"expected {sorted(errors)} but assembled to {out.code.hex()}: {text!r}")]
        got = set(out.error_ids())
        # the first refused value aborts the build, so only one of several expected identifiers has to appear
        if not errors & got:
            return [("wrong-error:" + "+".join(sorted(errors - got)), f"expected {sorted(errors)}, reported {sorted(got)}: {text!r}")]
        return []
    if out.kind != "ok":
        return [("rejected:" + "+".join(sorted(set(out.error_ids()))), f"valid expressions rejected with {sorted(set(out.error_ids()))}: {text!r}")]
    if out.code != image:
        # find the first item whose bytes differ
        off = 0
        for ctx, e, v, _ in info:
            size = {"dword": 4, "word": 2, "imm": 4, "index": 4}[ctx]
            if out.code[off:off + size] != image[off:off + size]:
                topop = e[1] if e[0] in ("bin", "un") else e[0]
                return [(f"value:{ctx}", f"{render.expr(e)} (top operator {topop}) should be {v} -> {image[off:off + size].hex()}, "
                                         f"emitted {out.code[off:off + size].hex()}: {text!r}")]
            off += size
        return [("value:length", f"image length {len(out.code)} != {len(image)}: {text!r}")]
    return []


# ---------------------------------------------------------------------------
# exhaustive operator pairs

TRIPLES = [(100, 7, 3), (-100, 7, 3), (0o177777, 2, 5), (12, -5, 2), (1, 3, 2), (-7, 2, -3 + 4)]


def pair_case(op1, op2, t):
    a, b, c = t
    if op1 in ("<<", ">>", "_"):
        b = abs(b) % 8
    if op2 in ("<<", ">>", "_"):
        c = abs(c) % 8
    if X.PREC[op1] <= X.PREC[op2]:
        e = ("bin", op2, ("bin", op1, ("num", a), ("num", b)), ("num", c))
    else:
        e = ("bin", op1, ("num", a), ("bin", op2, ("num", b), ("num", c)))
    text_expr = f"{num_text(a)} {op1} {num_text(b)} {op2} {num_text(c)}"
    return e, text_expr


def num_text(v):
    return ("-" if v < 0 else "") + "%o" % abs(v)


def shards(tier):
    specs = [{"part": "pairs"}]
    k = 16
    per = (6000 if tier == "quick" else 150000) // PER_PROGRAM // k * 2
    for i in range(k):
        specs.append({"part": "random", "i": i, "examples": per})
    return specs


def run_shard(spec, ctx):
    if spec["part"] == "pairs":
        for op1 in X.INFIX:
            for op2 in X.INFIX:
                for t in TRIPLES:
                    e, text_expr = pair_case(op1, op2, t)
                    case = {"kind": "pair", "op1": op1, "op2": op2, "t": list(t)}
                    ctx.case(text_expr, True, ["pair"], sample=text_expr if (op1, op2) in (("-", "*"), ("_", "&")) and t == TRIPLES[0] else None)
                    for sig, msg in replay(case):
                        ctx.fail(sig, msg, case)
        ctx.extra["operator_pairs_exhaustive"] = len(X.INFIX) ** 2
        return
    pairs = set()
    spellings = set()

    def check(case):
        built = build(case)
        text, image, errors, info, used = built
        for ctxname, e, v, kind in info:
            ops = ops_in(e)
            nt = (X.depth(e) >= 2 and len(ops) >= 2) or kind is not None
            labels = [f"ctx-{ctxname}", "class-" + (kind or "value"), f"depth-{min(X.depth(e), 6)}"]
            if "redundant-group" not in case["rules"]:
                adjacent_pairs(e, pairs)
            key = render.expr(e)
            ctx.case(key, nt, labels, sample={"expr": key, "value": v, "error": kind} if ctx.evaluations % 41 == 7 else None)
        for r in used:
            ctx.classes["style:" + r] += 1
        ctx.classes[f"repeat-copies-{case.get('rep', 1)}"] += 1
        res = judge(case, built)
        if res:
            return (res[0][0], res[0][1], case)
        return None

    core.hyp_search(ctx, program(), check, spec["examples"], "c05")
    ctx.extra["operator_pairs_random"] = sorted(f"{a} {b}" for a, b in pairs)


def finalize(tier, classes, extra):
    pairs = extra.get("operator_pairs_random", [])
    extra["operator_pairs_random_count"] = len(pairs)
    extra["operator_pairs_random_missing"] = sorted(f"{a} {b}" for a in X.INFIX for b in X.INFIX if f"{a} {b}" not in pairs)
    del extra["operator_pairs_random"]


def replay(case):
    if case["kind"] == "pair":
        e, text_expr = pair_case(case["op1"], case["op2"], tuple(case["t"]))
        env = Env({}, 0)
        try:
            v = X.ev_int(e, env)
            if abs(v) >= M32:
                c = oracle.expect_error(oracle.single(f"\t.dword {text_expr}\n"), ["value-out-of-bounds"])
            else:
                c = oracle.expect_ok(oracle.single(f"\t.dword {text_expr}\n"), struct.pack("<HH", (v >> 16) & 0xFFFF, v & 0xFFFF))
        except X.EvalError as ex:
            c = oracle.expect_error(oracle.single(f"\t.dword {text_expr}\n"), [ex.kind])
        return [(f"pair:{s}:{case['op1']} {case['op2']}", f"{text_expr}: {m}") for s, m in oracle.check_expect(c)]
    if case["kind"] == "c05":
        return judge(case)
    return oracle.replay_generic(case)
