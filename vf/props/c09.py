"""C09 - relocation law: only absolute address words move with the base."""
import struct

from hypothesis import strategies as st

from .. import core, gen, model, oracle, progcheck

ID = "C09"
LEVEL = "exploration"
RULE = ("Hypothesis programs (1-2 files, optional includes, constants that alias addresses, label differences, relative and absolute "
        "references to own labels) whose '.link' / leading '. =' / late '.link' operand is replaced by three drawn bases (multiples of "
        "0o100 incl. 0, values near 0o177700 whose addresses pass 0o177777). Oracles: (1) law on pdpy11's own three images: a word "
        "differs between two bases iff the reference assembler marks it as an absolute address word, and then by exactly the base "
        "difference mod 2^16; programs with no absolute word are byte-identical; (2) each image equals the reference image; bases for "
        "which an absolute word would not fit 16 bits must be refused; (3) the .bin container of each image holds the whole image. Non-trivial: >= 1 absolute word and >= 1 relative "
        "self-reference; distinct = distinct program text.")
ASSUMPTIONS = ["address words are 16-bit words: .dword operands are base-free here (a 32-bit address would carry into its high word)", "bases are multiples of 0o100 so that .even/.align padding does not change with the base (layout independence is a "
               "precondition of the law)", "vf/model.py tells which words hold absolute addresses (affine coefficient of the base != 0)"]

BASES = [0, 0o100, 0o1000, 0o2000, 0o40000, 0o100000, 0o157700, 0o177000, 0o177700, 0o137700]


@st.composite
def case_st(draw):
    variant = draw(st.sampled_from(["plain", "files", "includes", "late"]))
    opts = {"plain": dict(max_files=1, base_forms=["link", "dot"], skip=True),
            "files": dict(max_files=2, base_forms=["link", "dot"]),
            "includes": dict(max_files=1, includes=True, base_forms=["link", "dot"]),
            "late": dict(max_files=2, base_forms=["link-late"])}[variant]
    prog = draw(gen.program_st(const_addr=True, const_label_diff=True, align_moduli=[2, 4, 8, 16, 1], dword_addr=False, **opts))
    bases = draw(st.lists(st.sampled_from(BASES), min_size=3, max_size=3, unique=True))
    prog["meta"]["variant"] = variant
    return prog, bases


def with_base(prog, base):
    files = {}
    for path, stmts in prog["files"].items():
        files[path] = [dict(s, e=("num", base)) if s["k"] == "link" else s for s in stmts]
    return dict(prog, files=files)


def count_relative(prog):
    n = 0

    def walk(stmts):
        nonlocal n
        for s in stmts:
            if s["k"] == "insn":
                for o in s["ops"]:
                    if o[0] in ("rel", "reld", "tgt"):
                        n += 1
            elif s["k"] == "repeat":
                walk(s["body"])
    for stmts in prog["files"].values():
        walk(stmts)
    return n


def words(b):
    return struct.unpack("<%dH" % (len(b) // 2), b[:len(b) // 2 * 2])


def judge(prog, bases):
    """-> (fails or None if undecidable, info)"""
    results = []
    import os
    from .. import driver
    # the three assemblies run in one directory (same paths for the included files), one after the other in this process
    first = with_base(prog, bases[0])
    tree = dict(progcheck.texts_of(first))
    tree.update(prog.get("blobs", {}))
    with driver.Scratch(tree) as sc:
        for b in bases:
            p = with_base(prog, b)
            r = model.assemble(p)
            if r.kind == "skip":
                return None, {"why": r.why}
            texts = progcheck.texts_of(p)
            out = driver.assemble([(os.path.join(sc.path, m), texts[m]) for m in p["mains"]], charset=p.get("charset", "bk"), timeout=10.0)
            results.append((b, p, r, out, texts))
    fails = []
    for b, p, r, out, texts in results:
        res = progcheck.compare(r, out, texts)
        if res:
            fails.append((f"base-{'wrap' if b >= 0o157700 else 'plain'}:" + res[0], f"at base {b:o}: " + res[1]))
    # what reaches the user is the container: the .bin form of every image must hold all of it, also when its addresses wrap
    from .. import driver
    from ..ref import codecs
    for b, p, r, out, texts in results:
        if out.kind == "ok" and not fails:
            blob = driver.pd().formats.file_formats["bin"](out.base, out.code)
            hb, hn = struct.unpack("<HH", blob[:4]) if len(blob) >= 4 else (None, None)
            if (hb, hn) != (out.base & 0xFFFF, len(out.code) & 0xFFFF) or blob[4:] != out.code:
                fails.append((f"container-{'wrap' if b >= 0o157700 else 'plain'}", f"at base {b:o}: the .bin container has header ({hb}, {hn}) and {len(blob) - 4} payload bytes for an image of {len(out.code)} bytes"))
    info = {"absolute": 0, "ok_bases": 0}
    oks = [(b, r, out, texts) for b, p, r, out, texts in results if r.kind == "ok" and out.kind == "ok"]
    info["ok_bases"] = len(oks)
    if len(oks) >= 2:
        (b1, r1, o1, t1) = oks[0]
        for (b2, r2, o2, t2) in oks[1:]:
            if len(r1.image) != len(r2.image) or [(a - r1.base, n) for a, n, _, _ in r1.places] != [(a - r2.base, n) for a, n, _, _ in r2.places]:
                return None, {"why": "layout depends on the base"}
            absolute = {i for i, (x, y) in enumerate(zip(words(r1.image), words(r2.image))) if x != y}
            info["absolute"] = len(absolute)
            if len(o1.code) != len(o2.code):
                fails.append(("law:length", f"image length {len(o1.code)} at base {b1:o} but {len(o2.code)} at base {b2:o}\n{progcheck.brief_texts(t1)}"))
                continue
            delta = (b2 - b1) & 0xFFFF
            for i, (x, y) in enumerate(zip(words(o1.code), words(o2.code))):
                if i in absolute:
                    if (y - x) & 0xFFFF != delta:
                        fails.append(("law:absolute-word-wrong-delta", f"word {i} holds an absolute address: {x:o} at base {b1:o}, {y:o} at base {b2:o}, "
                                      f"expected a change of {delta:o}\n{progcheck.brief_texts(t1)}"))
                        break
                elif x != y:
                    fails.append(("law:non-absolute-word-moved", f"word {i} is not an absolute address word but is {x:o} at base {b1:o} and {y:o} at base {b2:o}\n"
                                  f"{progcheck.brief_texts(t1)}"))
                    break
            if len(o1.code) % 2 and o1.code[-1] != o2.code[-1]:
                fails.append(("law:odd-tail", "last byte differs"))
    return fails, info


def shards(tier):
    k = 16
    per = (2000 if tier == "quick" else 30000) // 3 // k * 2
    return [{"part": "random", "i": i, "examples": per} for i in range(k)]


def run_shard(spec, ctx):
    def check(v):
        prog, bases = v
        fails, info = judge(prog, bases)
        texts = progcheck.texts_of(prog)
        key = "\n".join(texts[p] for p in sorted(texts)) + repr(bases)
        if fails is None:
            ctx.exclude("undecided:" + info["why"][:40])
            ctx.evaluations += 3
            return None
        nrel = count_relative(prog)
        nt = info["absolute"] >= 1 and nrel >= 1
        labels = [f"variant-{prog['meta']['variant']}", f"ok-bases-{info['ok_bases']}", "absolute-" + ("0" if not info["absolute"] else "1+"),
                  "wrap-base" if any(b >= 0o157700 for b in bases) else "plain-bases"]
        ctx.case(key, nt, labels, sample={"bases": [oct(b) for b in bases], "text": key[:500]} if ctx.evaluations % 60 == 6 else None, evaluations=3)
        if fails:
            return (fails[0][0], fails[0][1], progcheck.case_of(prog, bases=bases))
        return None

    core.hyp_search(ctx, case_st(), check, spec["examples"], "c09")


def replay(case):
    if case["kind"] == "prog":
        fails, info = judge(progcheck.prog_of(case), case["bases"])
        return fails or []
    return oracle.replay_generic(case)
