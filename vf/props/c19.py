"""C19 - the listing agrees with the image."""
import os
import re
import struct

from hypothesis import strategies as st

from .. import core, driver, gen, model, oracle, progcheck

ID = "C19"
LEVEL = "exploration"
RULE = ("Hypothesis programs of 1-3 linked files (+ included files) with labels (each followed by a unique marker word) and constants of "
        "any value: negative, zero, 16-bit boundaries, > 16 bit and > 32 bit, ties in value with different names, names differing only "
        "in case between files, local labels (must not be listed); run through the CLI with --lst and a drawn output selector (-o with "
        "various extensions and directories, make_bin/make_raw/make_wav with and without paths, --implicit-bin, several outputs, "
        "none). Oracle: the .lst is parsed into blocks 'file name / value name lines / blank'; per file that defines >= 1 ordinary "
        "symbol exactly one block whose names (as written) equal the reference assembler's symbol table, each once, every value an "
        "octal numeral (optional sign) equal to the reference value, lines ordered by (value, name); for every label the image holds the "
        "label's marker word at value - base; exactly one new .lst, beside an output file and named after it; no output => no "
        "listing. Non-trivial: >= 2 files or >= 1 symbol that is negative / > 16 bit / tied in value; distinct = distinct (tree, argv).")
ASSUMPTIONS = ["'named after it with a .lst suffix' accepts both X.ext -> X.lst and X.ext -> X.ext.lst",
               "with -o and make_* together the listing may stand beside either output (the statement does not order them)",
               "'named after it': both <output>.lst and <output minus extension>.lst are accepted, but the choice may depend on the first "
               "output file only (checked by dropping the later directives)",
               "block order in the listing is not specified"]

VALUES = [0, 1, -1, -5, 0o177777, 0o200000, 0o77777, 0o100000, 0o777777, 0o1000000, 0o1234567, -0o200000, 1 << 32, (1 << 32) + 5, 0o200001, 2, 0o1000]


@st.composite
def c19_case(draw):
    nfiles = draw(st.integers(1, 3))
    files, mains = {}, []
    marker = [0o125000]
    case_pool = ["val", "VAL", "Val", "tmp", "Tmp"]

    def body(tag, depth):
        stmts = []
        for i in range(draw(st.integers(0, 4))):
            name = f"lb{tag}{i}"
            stmts.append({"k": "label", "name": name, "export": draw(st.integers(0, 4)) == 0})
            marker[0] += 1
            stmts.append({"k": "data", "d": "word", "es": [("num", marker[0])], "marker_for": name})
            for _ in range(draw(st.integers(0, 2))):
                k = draw(st.integers(0, 6))
                if k == 4:
                    stmts.append({"k": "data", "d": draw(st.sampled_from(["word", "dword"])), "es": []})      # the implicit zero item
                elif k == 5:
                    stmts.append({"k": "data", "d": "byte", "es": [("num", 1)]})
                    stmts.append({"k": "even"})
                elif k == 6:
                    stmts.append({"k": "even"})
                elif k == 0:
                    stmts.append({"k": "insn", "mn": "nop", "ops": []})
                elif k == 1:
                    stmts.append({"k": "blk", "d": "blkw", "e": ("num", draw(st.integers(0, 5)))})
                elif k == 2:
                    stmts.append({"k": "local", "name": draw(st.sampled_from(["1$", "2$"])) if not any(s_["k"] == "local" for s_ in stmts[-3:]) else "9$"})
                    stmts.append({"k": "insn", "mn": "nop", "ops": []})
                else:
                    stmts.append({"k": "data", "d": "word", "es": [("sym", name)]})
        # constants
        vals = draw(st.lists(st.sampled_from(VALUES), min_size=0, max_size=5))
        for i, v in enumerate(vals):
            stmts.insert(draw(st.integers(0, len(stmts))), {"k": "assign", "name": f"cn{tag}{i}", "e": ("num", v)})
        if draw(st.booleans()) and vals:
            # a tie: another name with the value of an existing constant
            stmts.insert(draw(st.integers(0, len(stmts))), {"k": "assign", "name": f"aa{tag}", "e": ("num", vals[0])})
        if draw(st.integers(0, 2)) == 0:
            stmts.insert(draw(st.integers(0, len(stmts))), {"k": "assign", "name": draw(st.sampled_from(case_pool)), "e": ("num", draw(st.sampled_from(VALUES)))})
        # fix duplicate local labels within a scope: rename sequentially per scope
        seen = set()
        for s_ in stmts:
            if s_["k"] == "label":
                seen = set()
            if s_["k"] == "local":
                while s_["name"] in seen:
                    s_["name"] = str(int(s_["name"].rstrip("$")) + 1) + "$"
                seen.add(s_["name"])
        return stmts

    for f in range(nfiles):
        tag = "abc"[f]
        path = draw(st.sampled_from(["", "src/"])) + f"f{tag}.mac"
        files[path] = body(tag, 1)
        mains.append(path)
    if draw(st.integers(0, 2)) == 0:
        inc = "inc/lib.mac"
        files[inc] = body("i", 2)
        host = draw(st.sampled_from(mains))
        rel = os.path.relpath(inc, os.path.dirname(host) or ".")
        # never between a label and its marker word
        spots = [0, len(files[host])] + [i + 1 for i, s_ in enumerate(files[host]) if "marker_for" in s_]
        files[host].insert(draw(st.sampled_from(spots)), {"k": "include", "path": rel})
    # uses of symbols that another file exports (an imported name belongs to the exporting file's section only)
    exported = {p_: [s_["name"] for s_ in st_ if s_["k"] == "label" and s_.get("export")] for p_, st_ in files.items()}
    for p_ in list(files):
        others = [n for q_, ns in exported.items() if q_ != p_ for n in ns]
        for _ in range(draw(st.integers(0, 2)) if others else 0):
            name = draw(st.sampled_from(others))
            if draw(st.booleans()):
                name = name.upper()
            spots = [0, len(files[p_])] + [i + 1 for i, s_ in enumerate(files[p_]) if "marker_for" in s_]
            files[p_].insert(draw(st.sampled_from(spots)), {"k": "data", "d": "word", "es": [("sym", name)]})
    base = draw(st.sampled_from([None, 0o2000, 0o100000]))
    if base is not None:
        files[mains[0]].insert(0, {"k": "link", "e": ("num", base)})
    # output selectors
    directives = []
    for i in range(draw(st.integers(0, 2))):
        d = draw(st.sampled_from(["make_bin", "make_raw", "make_wav"]))
        path = draw(st.sampled_from([None, "out/first", "alt/second.bin", "res.raw", "tape.wav", "out/x.BIN"]))
        if path is not None:
            path = path + ("" if i == 0 else f".{i}") if "." not in path else path.replace(".", f"{i}." if i else ".", 1)
        directives.append([d, path, draw(st.sampled_from(mains))])
    # two pathless directives of the same kind in one file would name the same file: keep the first
    seen = set()
    directives = [x for x in directives if not ((x[0], x[1], x[2]) in seen or seen.add((x[0], x[1], x[2])))]
    o = draw(st.sampled_from([None, None, "o.bin", "o", "out/o.raw", "o.BIN", "out/prog.bin.bak"]))
    implicit = draw(st.booleans())
    lst = draw(st.integers(0, 9)) != 0
    return {"kind": "c19", "files": files, "mains": mains, "directives": directives, "o": o, "implicit": implicit, "lst": lst}


def build(c):
    prog = {"files": {p: list(s) for p, s in c["files"].items()}, "blobs": {}, "mains": c["mains"], "charset": "bk"}
    for d, path, host in c["directives"]:
        prog["files"][host] = prog["files"][host] + [{"k": "make", "d": d, "args": [path] if path else []}]
    return prog


LINE = re.compile(r"^(-?)([0-7]+) (\S+)$")


def parse_listing(text):
    """-> list of (file name, [(value, name, raw line)]) or raises ValueError"""
    blocks = []
    lines = text.split("\n")
    i = 0
    while i < len(lines):
        if lines[i] == "" and i == len(lines) - 1:
            break
        fname = lines[i]
        if not fname:
            raise ValueError(f"line {i + 1}: file name expected")
        i += 1
        entries = []
        while i < len(lines) and lines[i] != "":
            m = LINE.match(lines[i])
            if not m:
                raise ValueError(f"line {i + 1}: not 'octal-value name': {lines[i]!r}")
            if len(m.group(2)) < 6:
                raise ValueError(f"line {i + 1}: value field shorter than 6 digits: {lines[i]!r}")
            v = int(m.group(2), 8) * (-1 if m.group(1) else 1)
            entries.append((v, m.group(3), lines[i]))
            i += 1
        if i >= len(lines):
            raise ValueError("block not terminated by a blank line")
        i += 1
        blocks.append((fname, entries))
    return blocks


def judge(c):
    prog = build(c)
    r = model.assemble(prog)
    texts = progcheck.texts_of(prog)
    if r.kind != "ok":
        return None, {"why": f"reference: {r.kind} {r.errors} {r.why}"}
    tree = dict(texts)
    for d in ("out/", "alt/", "src/", "inc/", "src/out/", "src/alt/"):
        tree[d] = None
    argv = list(c["mains"])
    if c["o"]:
        argv += ["-o", c["o"]]
    if c["implicit"]:
        argv.append("--implicit-bin")
    if c["lst"]:
        argv.append("--lst")
    with driver.Scratch(tree) as sc:
        root = sc.path
        res = driver.run_cli(sc, argv)
        info = {"status": res.status}
        if res.internal_error():
            return [("internal-error", f"argv {argv}: {res.stderr.decode('utf-8', 'replace')[-400:]}")], info
        if res.status != 0:
            return [("failed", f"argv {argv}: exit {res.status}: {res.stderr.decode('utf-8', 'replace')[-300:]}\n{progcheck.brief_texts(texts)}")], info
        new = sorted(k for k in res.after if k not in res.before and not k.endswith("/"))
        lsts = [k for k in new if k.lower().endswith(".lst")]
        outputs = [k for k in new if not k.lower().endswith(".lst")]
        info["outputs"] = outputs
        any_output = bool(c["o"]) or bool(c["directives"]) or c["implicit"]
        if not c["lst"] or not any_output:
            if lsts:
                return [("unexpected-listing", f"argv {argv}: listing {lsts} although {'--lst was not given' if not c['lst'] else 'there is no output file'}")], info
            return [], info
        if len(lsts) != 1:
            return [("listing-count", f"argv {argv}: {len(lsts)} listing files {lsts}; outputs {outputs}\n{progcheck.brief_texts(texts)}")], info
        lst = lsts[0]
        # location: beside an output and named after it.  Which output: '-o' (or implicit) when given, else the FIRST directive's file
        anchors = []
        if c["o"]:
            anchors.append(os.path.normpath(c["o"]))
        if c["directives"]:
            d, path, host = first_directive(c)
            hostdir = os.path.dirname(host)
            if path:
                anchors.append(os.path.normpath(os.path.join(hostdir, path)))
            else:
                stem = host[:-4] if host.lower().endswith(".mac") else host
                anchors.append(stem + {"make_bin": ".bin", "make_raw": "", "make_wav": ".wav"}[d])
        if not c["o"] and not c["directives"] and c["implicit"]:
            first = c["mains"][0]
            anchors.append((first[:-4] if first.lower().endswith(".mac") else first) + ".bin")
        ok_names = set()
        for a in anchors:
            ok_names.add(a + ".lst")
            ok_names.add(os.path.splitext(a)[0] + ".lst")
        if os.path.normpath(lst) not in ok_names:
            return [("listing-location", f"argv {argv}: listing written to {lst}, expected one of {sorted(ok_names)} (outputs {outputs})\n{progcheck.brief_texts(texts)}")], info
        if len(c["directives"]) >= 2 and not c["o"] and not c.get("_single"):
            # "beside the first output file and named after it": the name depends on the first output file only, so the same
            # program with just that one directive must put its listing in the same place
            first = first_directive(c)
            c1 = dict(c, directives=[first], _single=True)
            prog1 = build(c1)
            with driver.Scratch(dict({d: None for d in tree if d.endswith("/")}, **progcheck.texts_of(prog1))) as sc1:
                res1 = driver.run_cli(sc1, argv)
                lst1 = sorted(k for k in res1.after if k not in res1.before and k.lower().endswith(".lst"))
            if res1.status == 0 and lst1 != [lst]:
                return [("listing-name-depends-on-later-output", f"argv {argv}: listing {lst} with directives {[d[:2] for d in c['directives']]}, but {lst1} with only the first one {first[:2]}\n{progcheck.brief_texts(texts)}")], info
        text = sc.read(lst).decode("utf-8", "replace")
        try:
            blocks = parse_listing(text)
        except ValueError as ex:
            return [("listing-format", f"{ex}\n--- listing\n{text[:600]}\n{progcheck.brief_texts(texts)}")], info
        fails = []
        seen_files = {}
        for fname, entries in blocks:
            rel = os.path.relpath(fname, root) if os.path.isabs(fname) else fname
            if rel in seen_files:
                fails.append(("listing-duplicate-block", f"file {rel} has two blocks"))
            seen_files[rel] = entries
        for path, table in r.listing.items():
            if not table:
                continue
            if path not in seen_files:
                fails.append(("listing-missing-file", f"no block for {path} (blocks: {sorted(seen_files)})\n--- listing\n{text[:500]}"))
                continue
            entries = seen_files[path]
            got = sorted((n, v) for v, n, _ in entries)
            want = sorted((n, v) for n, v in table)
            if [n for n, _ in got] != [n for n, _ in want]:
                fails.append(("listing-names", f"{path}: listed names {[n for n, _ in got]}, symbols of the file {[n for n, _ in want]}\n--- listing\n{text[:500]}"))
            elif got != want:
                bad = [(g, w) for g, w in zip(got, want) if g != w][0]
                fails.append(("listing-value", f"{path}: {bad[0][0]} listed as {bad[0][1]:o}, reference value {bad[1][1]:o}\n--- listing\n{text[:500]}"))
            order = [(v, n) for v, n, _ in entries]
            if order != sorted(order):
                fails.append(("listing-order", f"{path}: lines are not ordered by (value, name): {[(oct(v), n) for v, n in order]}"))
        for rel in seen_files:
            if rel not in r.listing or not r.listing[rel]:
                fails.append(("listing-extra-file", f"block for {rel} which defines no ordinary symbol (or is not an input)"))
        # labels: the image holds the marker word at value - base
        if outputs and not fails:
            for path, stmts in prog["files"].items():
                for s_ in stmts:
                    if "marker_for" in s_:
                        v = r.symbols[path][s_["marker_for"]]
                        listed = [e[0] for e in seen_files.get(path, []) if e[1] == s_["marker_for"]]
                        off = listed[0] - r.base if listed else None
                        if off is None or r.image[off:off + 2] != struct.pack("<H", s_["es"][0][1]):
                            fails.append(("listing-label-address", f"{path}: label {s_['marker_for']} listed at {listed}, its marker word is at {v:o}"))
        return fails, info


def first_directive(c):
    """the first make_* directive in compile order (file order, then position: they are appended to their hosts in list order)"""
    for m in c["mains"]:
        for d in c["directives"]:
            if d[2] == m:
                return d
    return c["directives"][0]


def shards(tier):
    k = 16
    per = (4000 if tier == "quick" else 40000) // k
    return [{"part": "random", "i": i, "examples": per} for i in range(k)]


def run_shard(spec, ctx):
    def check(c):
        fails, info = judge(c)
        if fails is None:
            ctx.exclude("reference:" + info["why"][:40])
            ctx.evaluations += 1
            return None
        vals = [s_["e"][1] for st_ in c["files"].values() for s_ in st_ if s_["k"] == "assign"]
        special = any(v < 0 or v > 0o177777 for v in vals) or len(vals) != len(set(vals))
        labels = [f"files-{len(c['mains'])}", "o-" + ("none" if not c["o"] else "given"), f"directives-{len(c['directives'])}",
                  "implicit" if c["implicit"] else "no-implicit", "lst" if c["lst"] else "no-lst",
                  "has-include" if len(c["files"]) > len(c["mains"]) else "no-include"] + (["special-values"] if special else [])
        ctx.case(repr(c), len(c["mains"]) >= 2 or special, labels, sample={"argv_o": c["o"], "directives": c["directives"], "files": list(c["files"])} if ctx.evaluations % 40 == 3 else None)
        if fails:
            return (fails[0][0], fails[0][1], c)
        return None
    core.hyp_search(ctx, c19_case(), check, spec["examples"], "c19")


def replay(case):
    if case["kind"] == "c19":
        case = dict(case, files={k: progcheck.tuplify(v) for k, v in case["files"].items()})
        case["files"] = {k: list(v) for k, v in case["files"].items()}
        fails, info = judge(case)
        return fails or []
    return oracle.replay_generic(case)
