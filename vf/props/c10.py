"""C10 - spelling does not matter."""
import os

from hypothesis import strategies as st

from .. import core, driver, gen, model, oracle, progcheck, render

ID = "C10"
LEVEL = "exploration"
RULE = ("(a) every generated model program (1-3 files, includes, local labels, all statement kinds) is rendered twice under two "
        "independently drawn styles - compositions of the rewrite rules: letter case of mnemonics, directives, registers, symbols, radix "
        "prefixes and hex digits; blanks/tabs, blank lines, comments; number radix; ( ) / < > / ^x..x grouping and redundant grouping; "
        "rN / %N / %<N>, sp/r6, pc/r7; mnemonic synonyms; .word vs implicit word list; (rN) vs @rN; .byte/.db, .word/.dw; ! vs |; ~ vs ^C; "
        "string quote character - and both must give the same outcome class, base and bytes (also equal to the reference assembler). "
        "(b) each of the 21 practice programs is rewritten on pdpy11's own token spans (case of mnemonic/directive/register/symbol "
        "tokens, rN<->%N and sp/pc<->r6/r7, radix of Number tokens outside branch operands, comment and blank lines at statement "
        "boundaries) and must still produce its recorded image. Non-trivial: the two renderings differ in >= 3 rule classes; distinct "
        "= distinct pair of texts.")
ASSUMPTIONS = ["the rewrite rules of vf/render.py are meaning preserving (each is one of the rules listed in the property)",
               "warnings are ignored"]

PRACTICE = os.path.join(core.REPO, "tests", "practice")


def shards(tier):
    n = 8
    specs = [{"part": "practice", "i": i, "n": n, "variants": 4 if tier == "quick" else 300} for i in range(n)]
    specs.append({"part": "line-ends"})
    k = 16
    per = (1600 if tier == "quick" else 50000) // k
    for i in range(k):
        specs.append({"part": "random", "i": i, "examples": per})
    return specs


@st.composite
def case_st(draw):
    variant = draw(st.sampled_from(["plain", "files", "includes"]))
    opts = {"plain": dict(max_files=1), "files": dict(max_files=3), "includes": dict(max_files=2, includes=True)}[variant]
    prog = draw(gen.program_st(dyn_regs=True, const_addr=True, locals=True, skip=True, **opts))
    s1 = draw(gen.style_st())
    s2 = draw(gen.style_st())
    prog["meta"]["variant"] = variant
    return prog, s1, s2


def render_with(prog, style):
    st_ = render.Style(style["ints"], style["rules"])
    texts = {p: render.render_file(s, st_)[0] for p, s in prog["files"].items()}
    return texts, st_.used


def judge(prog, s1, s2):
    t1, u1 = render_with(prog, s1)
    t2, u2 = render_with(prog, s2)
    o1, _ = progcheck.run_pd(prog, t1)
    o2, _ = progcheck.run_pd(prog, t2)
    fails = []
    for o, t, which in ((o1, t1, "first"), (o2, t2, "second")):
        if o.kind == "timeout":
            raise core.Inconclusive("time budget")
        if o.kind in ("crash", "silent", "ok-with-errors"):
            fails.append((f"{o.kind}:{o.exc[0]}@{o.exc[1]}" if o.exc else o.kind, f"{which} spelling: {o.kind} {o.exc}\n{progcheck.brief_texts(t)}"))
    if fails:
        return fails, (u1, u2, t1, t2)
    if not o1.same_result(o2):
        rules = sorted(u1 ^ u2) or sorted(u1 | u2)
        return [("spelling-dependent:" + "+".join(rules[:2]), f"first -> {oracle.brief(o1)}\nsecond -> {oracle.brief(o2)}\nrules differing: {rules}\n=== first\n"
                 f"{progcheck.brief_texts(t1)}=== second\n{progcheck.brief_texts(t2)}")], (u1, u2, t1, t2)
    r = model.assemble(prog)
    if r.kind != "skip":
        res = progcheck.compare(r, o1, t1)
        if res:
            return [("reference:" + res[0], res[1])], (u1, u2, t1, t2)
    return [], (u1, u2, t1, t2)


# ---------------------------------------------------------------------------
# practice corpus: rewriting on pdpy11's own token spans

BRANCHY = None


def corpus_edits(path, text, choose):
    """-> list of (start, end, replacement, rule)"""
    p = driver.pd()
    T = __import__("pdpy11.types", fromlist=["x"])
    ops = __import__("pdpy11.operators", fromlist=["x"])
    insns = p.insns
    builtin = __import__("pdpy11.builtins", fromlist=["x"]).builtin_commands
    try:
        with p.reports.handle_reports(lambda *a: None):
            f = p.parser.parse(path, text)
    except p.reports.UnrecoverableError:
        return []   # the unmodified program no longer parses: reported by the caller through its outcome
    edits = []
    regnames = {"r0", "r1", "r2", "r3", "r4", "r5", "r6", "r7", "sp", "pc"}

    def flip_case(s):
        m = choose(3)
        if m == 0:
            return s.upper()
        if m == 1:
            return s.lower()
        return "".join(c.upper() if choose(2) else c.lower() for c in s)

    def span(tok):
        return tok.ctx_start.pos, tok.ctx_end.pos

    def visit_expr(tok, in_branch):
        if tok is None:
            return
        if isinstance(tok, T.Symbol):
            a, b = span(tok)
            src = text[a:b]
            name = tok.name
            if src.lower().rstrip(":") != name.lower():
                return
            if name.lower() in regnames and not tok.is_necessarily_label:
                k = choose(4)
                n = {"sp": 6, "pc": 7}.get(name.lower(), int(name[1]) if name[1:].isdigit() else None)
                if k == 0 and n is not None:
                    edits.append((a, a + len(name), "%" + str(n), "reg-percent"))
                elif k == 1 and n is not None and n >= 6:
                    new = ("r%d" % n) if name.lower() in ("sp", "pc") else ("sp" if n == 6 else "pc")
                    edits.append((a, a + len(name), new, "reg-sp-pc"))
                elif k == 2:
                    edits.append((a, a + len(name), flip_case(name), "case-register"))
                return
            if name[0].isdigit():
                return
            if choose(3) == 0:
                edits.append((a, a + len(name), flip_case(name), "case-symbol"))
        elif isinstance(tok, T.Number):
            a, b = span(tok)
            src = text[a:b]
            rep = tok.representation
            if in_branch or rep.upper().startswith("^R") or rep.upper().startswith("-^R") or tok.invalid_base8 or choose(3):
                return
            if not src or not src[0].isdigit():
                return
            v = abs(tok.value)
            new = [f"{v}.", f"0x{v:x}", f"0o{v:o}", f"0b{v:b}", f"{v:o}", f"0X{v:X}"][choose(6)]
            edits.append((a, b, new, "radix"))
        elif isinstance(tok, ops.InfixOperator):
            visit_expr(tok.lhs, in_branch)
            visit_expr(tok.rhs, in_branch)
        elif isinstance(tok, ops.UnaryOperator):
            visit_expr(tok.operand, in_branch)
        elif isinstance(tok, T.ParenthesizedExpression):
            visit_expr(tok.expr, in_branch)
        elif isinstance(tok, T.AngleBracketedChar):
            visit_expr(tok.expr, in_branch)
        elif isinstance(tok, T.StringConcatenation):
            for c in tok.chunks:
                visit_expr(c, in_branch)

    def visit_block(block, top):
        for ins in block.insns:
            a, b = span(ins)
            if top and choose(12) == 0:
                ls = text.rfind("\n", 0, a) + 1
                if text[ls:a].strip() == "":
                    edits.append((ls, ls, ["\n", "; moved here: mov r0, r1 \"x\n", "\t; note\n", "   \n"][choose(4)], "comments"))
            if isinstance(ins, T.Instruction):
                name = ins.name.name
                na, nb = span(ins.name)
                if name in builtin and text[na:nb].lower() == name.lower() and choose(2) == 0:
                    edits.append((na, nb, flip_case(text[na:nb]), "case-mnemonic" if not name.startswith(".") else "case-directive"))
                lname = name.lower()
                is_branch = False
                try:
                    is_branch = lname in insns.instructions and any(type(o).__name__ == "OffsetOperandStub" for o in insns.instructions[lname].operands)
                except Exception:  # noqa
                    is_branch = True
                literal = lname in (".error", ".title", ".sbttl")
                for op in ins.operands:
                    if isinstance(op, T.CodeBlock):
                        visit_block(op, False)
                    elif not literal:
                        visit_expr(op, is_branch)
            elif isinstance(ins, T.WordList):
                for w in ins.words:
                    visit_expr(w, False)
            elif isinstance(ins, T.Label):
                if not ins.local and choose(3) == 0:
                    la, lb = span(ins)
                    if text[la:la + len(ins.name)].lower() == ins.name.lower():
                        edits.append((la, la + len(ins.name), flip_case(ins.name), "case-symbol"))
            elif isinstance(ins, T.Assignment):
                if isinstance(ins.target, T.Symbol):
                    visit_expr(ins.target, False)
                visit_expr(ins.value, False)

    visit_block(f.body, True)
    # drop overlapping edits
    edits.sort(key=lambda e: (e[0], e[1]))
    out, pos = [], -1
    for e in edits:
        if e[0] >= pos:
            out.append(e)
            pos = max(e[1], e[0])
    return out


def apply_edits(text, edits):
    res, pos = [], 0
    for a, b, new, _ in edits:
        res.append(text[pos:a])
        res.append(new)
        pos = b
    res.append(text[pos:])
    return "".join(res)


def lcg(seed):
    state = [seed & (2 ** 64 - 1)]

    def choose(n):
        state[0] = (state[0] * 6364136223846793005 + 1442695040888963407) & (2 ** 64 - 1)
        return (state[0] >> 33) % n
    return choose


_base_cache = {}


def practice_case(name, seed):
    src = os.path.join(PRACTICE, name, "code.mac")
    with open(src) as f:
        text = f.read()
    edits = corpus_edits(src, text, lcg(seed))
    new = apply_edits(text, edits)
    rules = sorted({e[3] for e in edits})
    if name not in _base_cache:
        _base_cache[name] = driver.assemble([(src, text)], timeout=300)
    a = _base_cache[name]
    b = driver.assemble([(src, new)], timeout=300)
    return a, b, rules, len(edits), new


STATEMENTS = ["\tmov #100, r0", "\t.word 100., 125.", "vol:\t100., 125.", "\t100, 125", "tab:\t1, ., tab+2", "\t.byte 1, 2\n\t.even", "\tclr @#177560", "\tbr .+2", "lab:", "x = 5",
              "\t.ascii \"ab\"\n\t.even", "\tmov 'a, r1", "\t.word ^Rabc", "\t.word \"ab", "\tmov #^C1, r2", "\t.word 1 + 2", "\t.word <1>", "\t.blkw 2", "\tnop", "\tsob r1, .",
              "\t.repeat 2 { nop }", "\t.rad50 /abc/", "\tjsr pc, @(sp)+", "\t.word -1", "\tmov r1, 2(r2)", "\tmov r1,2(r2)", "\t.even", "\tmake_raw", "\t.word 'a'"]
LINE_ENDS = ["", " ", "\t", ";c", "; c", " ;c", "\t; comment 1, 2", ";", " ; ;", ";'", ";\"", "\r"]


def run_shard(spec, ctx):
    if spec["part"] == "line-ends":
        # what follows a statement on its line (nothing, blanks, a comment glued to the last token or set off by blanks) does not matter
        for stmt in STATEMENTS:
            ref = None
            for end in LINE_ENDS:
                lines = stmt.split("\n")
                text = "\n".join([lines[0] + end] + lines[1:]) + "\n\thalt\n"
                out = driver.assemble([("/vf/le.mac", text)])
                ctx.case(text, True, ["line-end"], sample=text if (stmt, end) == ("vol:\t100., 125.", ";c") else None)
                if end == "":
                    ref = out
                    if out.kind != "ok":
                        ctx.fail("line-ends:reference-statement", f"{text!r}: {oracle.brief(out)}", {"kind": "expect", "tree": {"main.mac": text}, "mains": ["main.mac"], "charset": "bk", "expect": {"kind": "ok", "base": None, "code": ""}})
                        break
                elif out.kind != "ok" or out.code != ref.code or out.base != ref.base:
                    case = {"kind": "equiv", "variants": [oracle.single("\n".join(lines) + "\n\thalt\n"), oracle.single(text)]}
                    ctx.fail("line-ends:differs", f"{stmt!r} followed by {end!r}: {oracle.brief(out)}; alone: {oracle.brief(ref)}", case)
        return
    if spec["part"] == "practice":
        for name in sorted(os.listdir(PRACTICE))[spec["i"]::spec["n"]]:
            for v in range(spec["variants"]):
                sd = core.seed_for(ctx.seed, name, v)
                a, b, rules, n, new = practice_case(name, sd)
                if a.kind == "timeout" or b.kind == "timeout":
                    ctx.exclude("inconclusive:timeout")
                    continue
                ctx.case((name, new), len(rules) >= 3, ["practice"] + ["rule:" + r for r in rules],
                         sample=f"{name}: {n} token edits, rules {rules}" if v == 0 else None)
                if a.kind != "ok":
                    ctx.fail("practice:original-broken", f"{name}: the unmodified practice program gives {oracle.brief(a)}", {"kind": "practice", "name": name, "seed": sd})
                elif not a.same_result(b) or b.kind in ("crash", "silent"):
                    ctx.fail("practice:spelling-dependent", f"{name}: original {oracle.brief(a)}; respelled ({rules}) {oracle.brief(b)}",
                             {"kind": "practice", "name": name, "seed": sd})
        return

    def check(v):
        prog, s1, s2 = v
        fails, (u1, u2, t1, t2) = judge(prog, s1, s2)
        key = repr(sorted(t1.items())) + repr(sorted(t2.items()))
        diff = u1 | u2
        ctx.case(key, len(diff) >= 3 and t1 != t2, [f"variant-{prog['meta']['variant']}"] + ["rule:" + r for r in sorted(diff)],
                 sample={"first": progcheck.brief_texts(t1, 350), "second": progcheck.brief_texts(t2, 350)} if ctx.evaluations % 80 == 4 else None, evaluations=2)
        if fails:
            return (fails[0][0], fails[0][1], dict(progcheck.case_of(prog), s1=s1, s2=s2))
        return None

    core.hyp_search(ctx, case_st(), check, spec["examples"], "c10")


def replay(case):
    if case["kind"] == "prog":
        fails, _ = judge(progcheck.prog_of(case), case["s1"], case["s2"])
        return fails
    if case["kind"] == "practice":
        a, b, rules, n, new = practice_case(case["name"], case["seed"])
        if not a.same_result(b):
            return [("practice:spelling-dependent", f"{case['name']}: {oracle.brief(a)} vs {oracle.brief(b)} rules {rules}")]
        return []
    return oracle.replay_generic(case)
