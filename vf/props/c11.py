"""C11 - symbol scoping and linking."""
from hypothesis import strategies as st

from .. import core, gen, model, oracle, progcheck, render

ID = "C11"
LEVEL = "exploration"
RULE = ("Hypothesis programs of 1-3 linked files with include trees (depth <= 3) in which a small pool of names is deliberately reused: "
        "the same local numbers in several scopes of one file and across files; the same ordinary names private in several files; "
        "exported through '::', '==', '.extern name' and '.extern all' placed before or after the definition; constants valued by a "
        "number, by a label distance of their file or by another visible name plus a number; used before and after "
        "the definition, before and after the exporting file in link order, from data bytes, immediates, words and relative operands, "
        "with and without a leading .link (eager and late evaluation); plus deliberately invisible references and duplicate definitions. "
        "Oracle: the property's resolution rule made executable in the reference assembler (own scope / own file / unique export / "
        "error). Non-trivial: >= 1 name defined in >= 2 scopes or files and referenced; distinct = distinct file set.")
ASSUMPTIONS = ["vf/model.py resolution: local -> same scope; ordinary -> own file instance, else the exported definition, else "
               "undefined-symbol; a second definition or export of a visible name -> duplicate-symbol",
               "one reported expected identifier suffices when several errors are planted (the first error aborts the build)"]

NAMES = gen.names("q", 4)           # q0..q3 reused everywhere
LOCALS = ["1$", "2$", "7", "0", "10", "1", "11", "10$", "0$", "1x", "0ball", "2.a", "9z$", "8", "19"]   # also names that collide when a scope number is glued to them without a separator


@st.composite
def c11_program(draw):
    """plan first (which instance defines / exports which name), then write the statements"""
    nmain = draw(st.integers(1, 3))
    # instance tree: list of dicts {path, parent, depth}
    insts = []
    for f in range(nmain):
        insts.append({"path": f"m{'abc'[f]}.mac", "parent": None, "depth": 1})
    for i in range(draw(st.integers(0, 3))):
        parent = draw(st.sampled_from([x for x in insts if x["depth"] < 4]))
        insts.append({"path": f"sub{i}.mac", "parent": parent["path"], "depth": parent["depth"] + 1})
    fault = draw(st.sampled_from([None] * 8 + ["invisible", "dup-def", "dup-export", "dup-export-nested"]))
    exported = {}     # name -> instance path
    nconst = 0
    for inst in insts:
        inst["defs"] = {}
        for name in draw(st.lists(st.sampled_from(NAMES), max_size=3, unique=True)):
            nconst += 1
            kind = draw(st.sampled_from(["label", "const"]))
            how = draw(st.sampled_from(["private", "private", "colon", "extern-before", "extern-after"]))
            if how != "private" and name in exported:
                how = "private"
            if how != "private":
                exported[name] = inst["path"]
            inst["defs"][name] = {"kind": kind, "how": how, "value": 16 * nconst + NAMES.index(name)}
        inst["extern_all"] = False
    # '.extern all' in at most one instance, only if none of its names is exported already by someone else
    cands = [x for x in insts if x["defs"] and all(exported.get(n, x["path"]) == x["path"] for n in x["defs"])]
    if cands and draw(st.integers(0, 2)) == 0:
        x = draw(st.sampled_from(cands))
        x["extern_all"] = draw(st.sampled_from(["before", "before", "after", "middle"]))
        for n, d in x["defs"].items():
            d["how"] = "private"      # exported through 'all' only (a second export would be a duplicate)
            exported[n] = x["path"]
    # shadowing plan: two instances hold a private constant p each; one of them exports t derived from *its* p, the other one
    # combines t with *its own* p in one expression
    if len(insts) >= 2 and draw(st.integers(0, 2)) == 0:
        ia, ib = draw(st.permutations(range(len(insts))))[:2]
        pi_ = draw(st.integers(0, len(NAMES) - 2))
        pn, tn = NAMES[pi_], NAMES[draw(st.integers(pi_ + 1, len(NAMES) - 1))]
        A, B = insts[ia], insts[ib]
        free = all(exported.get(n, B["path"]) == B["path"] for n in (pn, tn)) and not A["extern_all"] and not B["extern_all"]
        if free:
            for x in insts:
                if x is not B:
                    x["defs"].pop(tn, None)
            for x, val in ((A, 0o20), (B, 0o40)):
                x["defs"][pn] = {"kind": "const", "how": "private", "value": val + NAMES.index(pn), "shape": draw(st.sampled_from(["diff", "diff", "num"]))}
            exported.pop(pn, None)
            B["defs"][tn] = {"kind": "const", "how": draw(st.sampled_from(["colon", "extern-before", "extern-after"])), "value": 3, "shape": "derived", "from": pn}
            exported[tn] = B["path"]
            A["forced_use"] = (tn, pn)
    files = {}
    for ii, inst in enumerate(insts):
        visible = list(inst["defs"]) + [n for n, p_ in exported.items() if p_ != inst["path"] and n not in inst["defs"]]
        stmts = []
        helpers = False
        for name, d in inst["defs"].items():
            exp = d["how"] == "colon"
            if d["kind"] == "label":
                block = [{"k": "label", "name": name, "export": exp}, {"k": "insn", "mn": "nop", "ops": []}]
            else:
                # the value: a number, the distance between the two helper labels of this instance (known only once the file is
                # laid out), or another visible name of lower index plus a number (no cycles: the index strictly decreases)
                shape = d.get("shape") or draw(st.sampled_from(["num", "num", "diff", "derived", "derived"]))
                lower = [d["from"]] if d.get("from") else [n for n in visible if NAMES.index(n) < NAMES.index(name)]
                if shape == "diff":
                    helpers = True
                    e = ("bin", "+", ("bin", "-", ("sym", f"hz{ii}"), ("sym", f"ha{ii}")), ("num", d["value"]))
                elif shape == "derived" and lower:
                    e = ("bin", "+", ("sym", draw(st.sampled_from(lower))), ("num", d["value"] % 16 + 1))
                else:
                    e = ("num", d["value"])
                block = [{"k": "assign", "name": name, "e": e, "export": exp}]
            if d["how"] in ("extern-before", "extern-after"):
                # separate blocks: the permutation below decides which comes first and what stands between them
                stmts.append([{"k": "extern", "names": [name]}])
            stmts.append(block)
        if inst.get("forced_use"):
            tn, pn = inst["forced_use"]
            stmts.append([{"k": "data", "d": "word", "es": [("bin", draw(st.sampled_from(["+", "-"])), ("sym", tn), ("sym", pn)), ("sym", pn), ("sym", tn)]}])
        for _ in range(draw(st.integers(1, 6))):
            k = draw(st.sampled_from(["use", "use", "use", "local", "filler"]))
            if k == "use" and visible:
                name = draw(st.sampled_from(visible))
                e = ("sym", name)
                if len(visible) > 1 and draw(st.integers(0, 3)) == 0:
                    e = ("bin", draw(st.sampled_from(["+", "-"])), e, ("sym", draw(st.sampled_from([n for n in visible if n != name]))))
                how = draw(st.sampled_from(["word", "byte", "imm", "rel", "index"]))
                if how == "word":
                    stmts.append([{"k": "data", "d": "word", "es": [e]}])
                elif how == "byte":
                    stmts.append([{"k": "data", "d": "byte", "es": [("bin", "&", e, ("num", 0o377)), ("num", 0)]}])
                elif how == "imm":
                    stmts.append([{"k": "insn", "mn": "mov", "ops": [("imm", e), ("reg", 0)]}])
                elif how == "rel":
                    stmts.append([{"k": "insn", "mn": "tst", "ops": [("rel", e)]}])
                else:
                    stmts.append([{"k": "insn", "mn": "clr", "ops": [("idx", 3, e)]}])
            elif k == "local":
                ln = draw(st.sampled_from(LOCALS))
                ref = ("loc", ln if ln.endswith("$") else ln + ":")
                use = {"k": "data", "d": "word", "es": [ref]} if draw(st.booleans()) else {"k": "insn", "mn": "mov", "ops": [("imm", ref), ("reg", 1)]}
                pair = [{"k": "local", "name": ln}, {"k": "insn", "mn": "nop", "ops": []}, use]
                if draw(st.booleans()):
                    pair = [use, {"k": "local", "name": ln}, {"k": "insn", "mn": "nop", "ops": []}]
                if draw(st.integers(0, 2)) == 0:
                    # a definition between the two: it does not end the local scope
                    nconst += 1
                    pair.insert(draw(st.integers(1, len(pair) - 1)), {"k": "assign", "name": f"mid{nconst}", "e": ("num", nconst)})
                stmts.append(pair)     # kept together: same scope, unique within it
            else:
                stmts.append([{"k": "insn", "mn": "nop", "ops": []}])
        stmts = draw(st.permutations(stmts))
        # local blocks reuse the same numbers: separate them by ordinary-label scopes where needed
        flat, seen_locals, cuts = [], set(), [0]
        for block in stmts:
            ln = [s_["name"] for s_ in block if s_["k"] == "local"]
            if ln and ln[0] in seen_locals:
                continue          # would be a duplicate local in the same scope
            for s_ in block:
                if s_["k"] == "label":
                    seen_locals = set()
            seen_locals.update(ln)
            flat += block
            cuts.append(len(flat))
        if inst["extern_all"]:
            pos = {"before": 0, "after": len(flat), "middle": len(flat) // 2}[inst["extern_all"]]
            # never between a local label and its use
            flat.insert(pos, {"k": "extern", "names": "all"})
        if helpers:
            flat.insert(0, {"k": "label", "name": f"ha{ii}"})
            flat.append({"k": "label", "name": f"hz{ii}"})
            cuts = [c + 1 for c in cuts]
        inst["stmts"] = flat
        inst["cuts"] = cuts
        files[inst["path"]] = flat
    # includes: put an include statement into the parent at a drawn position (not inside a local pair: position 0 or end)
    for inst in insts:
        if inst["parent"]:
            body = files[inst["parent"]]
            parent = [x for x in insts if x["path"] == inst["parent"]][0]
            # between two blocks of the parent (never inside a local-label pair); later inserts shift earlier cut points
            cut = draw(st.sampled_from(parent["cuts"]))
            body.insert(cut, {"k": "include", "path": inst["path"]})
            parent["cuts"] = [c if c < cut else c + 1 for c in parent["cuts"]] + [cut]
    # the same file included a second time (only files that export nothing: a second export would be a duplicate): every
    # inclusion is an instance of its own, its references bind to its own labels
    twice = 0
    for inst in insts:
        if inst["parent"] and inst["defs"] and not inst["extern_all"] and all(d["how"] == "private" for d in inst["defs"].values()) \
                and not any(c["parent"] == inst["path"] for c in insts) and draw(st.integers(0, 2)) == 0:
            parent = [x for x in insts if x["path"] == inst["parent"]][0]
            body = files[inst["parent"]]
            cut = draw(st.sampled_from(parent["cuts"]))
            body.insert(cut, {"k": "include", "path": inst["path"]})
            parent["cuts"] = [c if c < cut else c + 1 for c in parent["cuts"]] + [cut]
            twice += 1
    mains = [x["path"] for x in insts if x["parent"] is None]
    if fault == "invisible":
        # a reference to a name that is private to another instance (or defined nowhere)
        inst = draw(st.sampled_from(insts))
        hidden = [n for n in NAMES if n not in inst["defs"] and n not in exported]
        if hidden:
            if draw(st.booleans()):
                files[inst["path"]].append({"k": "data", "d": "word", "es": [("sym", draw(st.sampled_from(hidden)))]})
            else:
                # ... inside a definition that nothing refers to
                files[inst["path"]].insert(draw(st.integers(0, len(files[inst["path"]]))), {"k": "assign", "name": "unusedq", "e": ("bin", "+", ("sym", draw(st.sampled_from(hidden))), ("num", 1))})
        else:
            fault = None
    elif fault == "dup-def":
        inst = draw(st.sampled_from(insts))
        if inst["defs"]:
            name = draw(st.sampled_from(sorted(inst["defs"])))
            files[inst["path"]].append({"k": "assign", "name": name, "e": ("num", 7)} if draw(st.booleans()) else {"k": "label", "name": name})
        else:
            fault = None
    elif fault == "dup-export":
        if exported:
            name = draw(st.sampled_from(sorted(exported)))
            others = [x for x in insts if x["path"] != exported[name]]
            if others:
                inst = draw(st.sampled_from(others))
                if name in inst["defs"]:
                    files[inst["path"]].append({"k": "extern", "names": [name]})
                else:
                    files[inst["path"]] += [{"k": "assign", "name": name, "e": ("num", 9), "export": True}]
            else:
                fault = None
        else:
            fault = None
    elif fault == "dup-export-nested":
        # an included file exports a name its includer exports too (the include may stand between '.extern x' and 'x:')
        pairs = [(x, c) for x in insts for c in insts if c["parent"] == x["path"] and any(exported.get(n) == x["path"] for n in x["defs"])]
        if pairs:
            x, c = draw(st.sampled_from(pairs))
            name = draw(st.sampled_from(sorted(n for n in x["defs"] if exported.get(n) == x["path"])))
            if name in c["defs"]:
                files[c["path"]].append({"k": "extern", "names": [name]})
            else:
                files[c["path"]] += [{"k": "assign", "name": name, "e": ("num", 11), "export": True}]
        else:
            fault = None
    if draw(st.booleans()):
        files[mains[0]].insert(0, {"k": "link", "e": ("num", draw(st.sampled_from([0o2000, 0o40000])))})
    return {"files": files, "blobs": {}, "mains": mains, "charset": "bk", "meta": {"fault": fault, "shadow": any(x.get("forced_use") for x in insts), "twice": twice,
                                                                                       "style": draw(gen.style_st(["case-symbol", "blanks", "case-directive"])) if draw(st.integers(0, 2)) == 0 else None}}


@st.composite
def scopes_program(draw):
    """many local-label scopes (also spread over files and an include) that all reuse the same multi-digit local names;
    every scope defines a subset and refers to it; optionally one scope refers to a name it does not define"""
    names = ["0", "1", "10", "11", "100", "110", "2", "01", "1a", "10x", "0.b"]
    nscopes = draw(st.integers(8, 26))
    nfiles = draw(st.integers(1, 3))
    files = {f"s{'abc'[f]}.mac": [] for f in range(nfiles)}
    paths = sorted(files)
    marker = 0o100000
    bad_at = draw(st.integers(0, nscopes * 4))
    for i in range(nscopes):
        path = paths[i * nfiles // nscopes]
        body = files[path]
        body.append({"k": "label", "name": f"sc{i}"})
        chosen = draw(st.lists(st.sampled_from(names), min_size=1, max_size=4, unique=True))
        for n in chosen:
            marker += 1
            body.append({"k": "local", "name": n})
            body.append({"k": "data", "d": "word", "es": [("num", marker)]})
        for n in draw(st.permutations(chosen)):
            body.append({"k": "data", "d": "word", "es": [("loc", n + ":")]})
        if i == bad_at:
            missing = [n for n in names if n not in chosen]
            body.append({"k": "data", "d": "word", "es": [("loc", draw(st.sampled_from(missing)) + ":")]})
    if draw(st.booleans()):
        # one file exports everything it defines: numeric local labels stay what they are
        target = draw(st.sampled_from(paths))
        files[target].insert(draw(st.sampled_from([0, 0, len(files[target]) // 2])), {"k": "extern", "names": "all"})
    if draw(st.booleans()) and nfiles > 1:
        # turn the last file into an include of the first
        last = paths[-1]
        files[paths[0]].append({"k": "include", "path": last})
        mains = paths[:-1]
    else:
        mains = paths
    return {"files": files, "blobs": {}, "mains": mains, "charset": "bk", "meta": {"fault": "missing-local" if bad_at < nscopes else None, "scopes": nscopes}}


def reuse_stats(prog):
    """names defined in >= 2 scopes/files and referenced somewhere"""
    defs = {}
    used = set()
    for path, stmts in prog["files"].items():
        scope = 0
        for s in stmts:
            if s["k"] in ("label", "assign"):
                defs.setdefault(s["name"], set()).add(path)
                if s["k"] == "label":
                    scope += 1
            elif s["k"] == "local":
                defs.setdefault("local:" + s["name"], set()).add((path, scope))
            for e in list(s.get("es", [])) + [o[-1] for o in s.get("ops", []) if isinstance(o[-1], tuple)]:
                from ..ref import expr as X
                for n in X.walk(e):
                    if n[0] == "sym":
                        used.add(n[1])
                    elif n[0] == "loc":
                        used.add("local:" + n[1].rstrip(":"))
    return sum(1 for k, v in defs.items() if len(v) >= 2 and k in used)


def judge(prog):
    r = model.assemble(prog)
    style = (prog.get("meta") or {}).get("style")
    # names are case-insensitive: one program in three spells every occurrence of a name in a case of its own
    texts = progcheck.texts_of(prog, render.Style(style["ints"], style["rules"]) if style else None)
    if r.kind == "skip":
        return None, r, texts
    out, root = progcheck.run_pd(prog, texts, want_symbols=not style)
    res = progcheck.compare(r, out, texts, check_symbols=not style, root=root)
    return ([res] if res else []), r, texts


def shards(tier):
    k = 16
    per = (3000 if tier == "quick" else 50000) // k
    return [{"part": "random", "i": i, "examples": per} for i in range(k)] + [{"part": "scopes", "i": i, "examples": max(per // 4, 10)} for i in range(4)]


def run_shard(spec, ctx):
    def check(prog):
        fails, r, texts = judge(prog)
        key = repr(sorted(texts.items()))
        if fails is None:
            ctx.exclude("reference-cannot-decide:" + (r.why or "")[:40])
            ctx.evaluations += 1
            return None
        reuse = reuse_stats(prog)
        if "scopes" in prog["meta"]:
            reuse = max(reuse, 1)
        labels = ([f"scopes-{'<11' if prog['meta']['scopes'] < 11 else '11+'}"] if "scopes" in prog["meta"] else []) + [f"files-{len(prog['mains'])}", f"model-{r.kind}" + (":" + r.errors[0] if r.errors else ""), f"planted-{prog['meta']['fault']}",
                  "has-include" if len(prog["files"]) > len(prog["mains"]) else "no-include", "reused-names" if reuse else "no-reuse"]
        if any(s["k"] == "extern" and s["names"] == "all" for st_ in prog["files"].values() for s in st_):
            labels.append("extern-all")
        if prog["meta"].get("style"):
            labels.append("names-in-mixed-case")
        if prog["meta"].get("twice"):
            labels.append("file-included-twice")
        if prog["meta"].get("shadow"):
            labels.append("shadowed-private-behind-export")
        ctx.case(key, reuse >= 1, labels, sample=progcheck.brief_texts(texts, 600) if ctx.evaluations % 70 == 9 else None)
        if fails:
            return (fails[0][0], fails[0][1], progcheck.case_of(prog, meta=prog["meta"]))
        return None

    core.hyp_search(ctx, scopes_program() if spec["part"] == "scopes" else c11_program(), check, spec["examples"], "c11-" + spec["part"])


def replay(case):
    if case["kind"] == "prog":
        prog = progcheck.prog_of(case)
        prog["meta"] = case.get("meta") or {}
        fails, r, texts = judge(prog)
        return fails or []
    return oracle.replay_generic(case)
