"""C18 - assembly is a pure function of its inputs (history independence, hash-seed independence)."""
import json
import os
import subprocess
import sys

import hypothesis
from hypothesis import settings, strategies as st, HealthCheck
from hypothesis.stateful import RuleBasedStateMachine, rule, invariant, run_state_machine_as_test

from .. import core, driver, gen, oracle, progcheck, render

ID = "C18"
LEVEL = "exploration"
RULE = ("(a) Hypothesis rule-based state machine over one long-lived interpreter: up to 50 steps drawn from assemble(valid program), "
        "assemble(program with non-critical errors), assemble(program ending in a critical error), assemble(whose report handler "
        "raises on its k-th call - an assembly that crashes half way), run the CLI entry point; programs reuse the probe set's file "
        "names and include paths on purpose. After every step a probe set of 19 programs (forward definition chains of four lengths, lazy evaluation, link-base solving, repeat, headers shared unchanged with history programs and full of once-per-token diagnostics, "
        "include with .once, .end, errors with positions, warnings, unencodable literal, cross-file exports, CLI run with files) is "
        "re-assembled (plus, when a step changed the interpreter's recursion limit, a generated '.word 1+1+...+1' whose outcome depends on "
        "it) and every result (outcome class, base, bytes, output directives, diagnostics by severity, identifier, file, start, "
        "end; for the CLI probe exit status, stdout and files written) must equal the result a fresh process gave at the start of the "
        "run. (b) the probe set and 200 generated programs are assembled in fresh subprocesses under PYTHONHASHSEED 0,1,2,3,random "
        "and must agree. Non-trivial: history with >= 1 failing and >= 1 crashing or critically aborted assembly before a probe; "
        "distinct = distinct history.")
ASSUMPTIONS = ["results are compared behaviourally; pdpy11's module-level state variables are reported for explanation only",
               "a forked child inherits the parent's module state, so the CLI probe sees leaks of the long-lived interpreter"]

WORK = None


def workdir():
    global WORK
    if WORK is None or not os.path.isdir(WORK):
        WORK = os.path.join(driver.scratch_root(), "c18")
        os.makedirs(WORK, exist_ok=True)
    return WORK


# ---------------------------------------------------------------------------
# probe set: (name, tree, mains)

# a header that several programs include unchanged; it is full of constructs whose diagnostics pdpy11 emits once per token
HDR = "lines == 18\n\t.ascii /a/<400>\n\t.word 'ю'\nhh:\tnop\n2:\tbr 2 + 2\n\t.word 9\n"

PROBES = [
    ("lazy", {"p.mac": "\tmov #late, r0\n\t.blkb n\n\t.even\nend:\t.word end - start, late * 2\nstart = 1000\nn = 3\nlate = n + 5\n"}, ["p.mac"]),
    ("linkbase", {"p.mac": "a = s\nb = e\n\t.link 2000 + (b - a)\ns:\tnop\n\tmov #e, r1\ne:\t.word ., s\n"}, ["p.mac"]),
    ("repeat", {"p.mac": "k = 4\n\t.repeat n { .word ./2\n\tclr k+2(r1)\n\tclr @k(r2) }\nn = 3\n\tbr .-4\n"}, ["p.mac"]),
    ("undefined", {"p.mac": "\tnop\n\t.word nosuch + 1\n\tmov #other, r0\n"}, ["p.mac"]),
    ("once", {"p.mac": "\tnop\n\t.include \"lib/once.mac\"\n\t.word 1\n\t.include \"lib/once.mac\"\n\t.word lab\n", "lib/once.mac": "\t.once\nlab::\t.word 123, 250\n"}, ["p.mac"]),
    ("end", {"p.mac": "\t.word 5\n\t.end\n\t))) junk ((\n", "q.mac": "\t.extern all\nqq:\t.word qq\n"}, ["p.mac", "q.mac"]),
    ("errors", {"p.mac": "\tnop\n\t.word nosuch + 1\n\t.byte 1, 400\n\t.even\n\tbr .+1000\n"}, ["p.mac"]),
    ("warnings", {"p.mac": "\t.word\n\temt #1\n\t.list\n\tclr @r0\n"}, ["p.mac"]),
    ("unencodable", {"p.mac": "\tmov #'€, r0\n\t.ascii /ok/\n"}, ["p.mac"]),
    ("exports", {"p.mac": "x == 1\n\t.word y\n", "q.mac": "\t.byte x\n\t.even\nx = 5\ny::\tnop\n"}, ["p.mac", "q.mac"]),
    ("blkb-negative", {"p.mac": "\tnop\n\t.blkb 0 - 1\n\tnop\n"}, ["p.mac"]),
] + [
    # forward chains of several lengths: every link creates short-lived intermediate objects (behaviour that depends on object
    # identity or allocation order shows up as an occasional deviation on some length)
    (f"chain-{n}", {"p.mac": "\t.word s0\n" + "".join(f"s{i} = s{i + 1} + 1\n" for i in range(n)) + f"s{n} = end + 2\n\tnop\nend:\n"}, ["p.mac"]) for n in (7, 10, 13, 16)
] + [
    ("register-as-value", {"p.mac": "\t.word sp\n\tmov #r1, r0\nx = pc\n\t.word x\n"}, ["p.mac"]),
    ("shared-header", {"p.mac": "\t.include \"lib/hdr.mac\"\n\t.word lines, 19\n\t.ascii <400>\n1:\tbr 1 + 2\n\tmov #'€, r0\n", "lib/hdr.mac": HDR}, ["p.mac"]),
    ("shared-header-warnings", {"p.mac": "\t.include \"lib/hdr2.mac\"\n3:\tbr 3 + 2\n\t.word 'a'\n", "lib/hdr2.mac": "4:\tbr 4 + 2\n\t.word 'b', \"cd\"\n\tclr @r0\n"}, ["p.mac"]),
]
CLI_PROBE = ("cli", {"p.mac": "\tmake_bin\n\tmake_raw \"out/r.raw\"\nv = -5\ntie3 = 7\ntie1 = 7\nzz = 7\ntie2 = 7\naa = 7\nl:\t.word l, v & 177777\nm:\nn:\t.word\n", "out/": None}, ["p.mac", "--lst", "--report-format=bare"])


def write_tree(tree):
    root = workdir()
    for rel, content in tree.items():
        full = os.path.join(root, rel)
        if content is None:
            os.makedirs(full, exist_ok=True)
            continue
        os.makedirs(os.path.dirname(full), exist_ok=True)
        with open(full, "w", encoding="utf-8", newline="") as f:
            f.write(content)
    return root


def clean_outputs():
    """a history starts in a directory without output files (what earlier *histories* wrote is not part of this one)"""
    root = workdir()
    for rel in ("p.bin", "p.lst", "out/r.raw", "hist.bin", "hist2.bin", "p.raw", "p"):
        try:
            os.unlink(os.path.join(root, rel))
        except OSError:
            pass


def result_of(out, root):
    diags = [[sev, ident, [[os.path.relpath(s[0], root), s[1], os.path.relpath(s[2], root), s[3]] for s in spans]] for sev, ident, spans in out.reports]
    emitted = [[e[2], os.path.relpath(e[3], root)] + [x.hex() if isinstance(x, bytes) else x for x in e[4:]] for e in (out.emitted or [])]
    return {"kind": out.kind, "base": out.base, "code": out.code.hex() if out.code is not None else None, "diags": diags, "emitted": emitted,
            "exc": list(out.exc[:2]) if out.exc else None}


def run_probe(probe):
    name, tree, mains = probe
    root = write_tree(tree)
    files = [(os.path.join(root, m), tree[m]) for m in mains]
    out = driver.assemble(files, repair=False)
    return result_of(out, root)


def run_cli_probe():
    name, tree, argv = CLI_PROBE
    root = write_tree(tree)
    # whatever earlier assemblies left at these paths stays there: the probe's own output must replace it completely

    class S:
        path = root

        def snapshot(self):
            return {}
    res = driver.run_cli(S(), argv, cwd=root)
    files = {}
    for rel in ("p.bin", "p.lst", "out/r.raw"):
        try:
            with open(os.path.join(root, rel), "rb") as f:
                files[rel] = f.read().replace(root.encode(), b"ROOT").hex()
        except OSError:
            files[rel] = None
    return {"status": res.status, "stdout": res.stdout.decode("utf-8", "replace").replace(root, "ROOT"), "files": files}


def all_probes():
    lim0 = sys.getrecursionlimit()
    res = {p[0]: run_probe(p) for p in PROBES}
    res["cli"] = run_cli_probe()
    if sys.getrecursionlimit() != lim0 and "_limit_change" in globals():
        _limit_change[0] = (lim0, sys.getrecursionlimit())     # the probes are assemblies too
    return res


def fresh_each():
    """every probe in a fresh interpreter of its own (a leak from one probe into the next must not become part of the baseline)"""
    res = {}
    for name in [p[0] for p in PROBES] + ["cli"]:
        res.update(fresh_baseline("0", only=name)["probes"])
    return res


def fresh_baseline(hashseed="0", extra_programs=None, only=None):
    """probe results from a fresh interpreter"""
    env = dict(os.environ, PYTHONHASHSEED=str(hashseed), PYTHONDONTWRITEBYTECODE="1")
    env.pop("PDPY11_VERIF", None)
    deps = [p for p in (os.path.join(core.HERE, ".deps"), "/verif/.deps") if os.path.isdir(p)]
    env["PYTHONPATH"] = os.pathsep.join([core.HERE] + deps[:1])
    inp = json.dumps({"programs": extra_programs or [], "only": only})
    r = subprocess.run([sys.executable, "-B", "-c", "from vf.props import c18; c18.child_main()"], input=inp, capture_output=True, text=True, env=env, cwd=core.HERE, timeout=900)
    if r.returncode != 0:
        raise core.HarnessError("fresh-process probe run failed:\n" + r.stderr[-2000:])
    return json.loads(r.stdout)


def child_main():
    req = json.loads(sys.stdin.read() or "{}")
    extra = req.get("programs", [])
    if req.get("only"):
        probes = {req["only"]: run_cli_probe()} if req["only"] == "cli" else {p[0]: run_probe(p) for p in PROBES if p[0] == req["only"]}
    else:
        probes = all_probes()
    res = {"probes": probes, "programs": []}
    for case in extra:
        prog = progcheck.prog_of(case)
        out, root = progcheck.run_pd(prog, {p: case["texts"][p] for p in case["texts"]}, repair=False)
        res["programs"].append(result_of(out, root))
    sys.stdout.write(json.dumps(res))


# ---------------------------------------------------------------------------
# history steps

VALID = [
    {"p.mac": "\t.word 1, 2\n\t.end\n\tjunk junk\n"},
    {"p.mac": "\t.include \"lib/once.mac\"\n\t.include \"lib/once.mac\"\n", "lib/once.mac": "\t.once\n\t.word 7\n"},
    {"p.mac": "\t.link 3000\n\t.repeat 3 { .word . }\nq:\tmov #q, r0\n"},
    {"p.mac": "x = 5\n\t.byte x\n\t.even\nlab::\tnop\n", "q.mac": "\t.word lab\n"},
    {"p.mac": "\tmov #'A, r0\n\t.ascii /text/\n\t.even\n\tmake_bin\n"},
    {"p.mac": "\t.blkw 100\nlong1 = 1\nlong2 = 2\nlong3 = 3\nlong4 = 4\nlong5 = 5\nlong6:\tnop\n\tmake_raw \"out/r.raw\"\n", "out/": None},
    {"p.mac": "\tnop\n\t.include \"lib/hdr2.mac\"\n", "lib/hdr2.mac": "4:\tbr 4 + 2\n\t.word 'b', \"cd\"\n\tclr @r0\n"},
]
INVALID = [
    {"p.mac": "\tnop\n\t.blkb 0 - 1\n\tnop\n"},
    {"p.mac": "\t.word undefined_here\n"},
    {"p.mac": "\tmov #'€, r0\n"},
    {"p.mac": "d:\tnop\nd:\tnop\n\t.word 5/0\n"},
    {"p.mac": "\t.include \"lib/once.mac\"\n", "lib/once.mac": "\t.once\n\t.word 400000\n"},
    {"p.mac": "\t.link s\ns:\tnop\n"},
    {"p.mac": "a = a + 1\n\t.word a\n"},
    {"p.mac": "\t.extern all\nz::\tnop\n"},
    {"p.mac": "\tnop\n\t.include \"lib/hdr.mac\"\n\t.word hh\n", "lib/hdr.mac": HDR},
    {"p.mac": "\t.word 8\n", "q.mac": "\t.include \"lib/hdr.mac\"\n", "lib/hdr.mac": HDR},
]
CRITICAL = [
    {"p.mac": "\tnop\n\t.ascii /never closed\n"},
    {"p.mac": "\t.word (1\n"},
    {"p.mac": "\tmov , r1\n"},
    {"p.mac": "\t.repeat 2, { nop }\n"},
    {"p.mac": "\t.word 1 { nop }\n\tmov #1 { nop }\n"},
    {"p.mac": "\t.include \"lib/once.mac\"\n", "lib/once.mac": "\t.once\n\t)\n"},
]
RAISING = [
    {"p.mac": "\t.word\n\t.word nosuch\n\t.byte 400\n\t.even\n"},
    {"p.mac": "\t.repeat 2 { .word 5/0 }\n\t.word\n"},
    {"p.mac": "\t.include \"lib/once.mac\"\n\t.word\n", "lib/once.mac": "\t.once\n\t.list\n\t.word q\n"},
]


class Boom(Exception):
    pass


_limit_change = [None]


def do_step(step):
    """execute one history step; notes a change of the interpreter's recursion limit made by the step"""
    lim0 = sys.getrecursionlimit()
    try:
        _do_step(step)
    finally:
        lim1 = sys.getrecursionlimit()
        if lim1 != lim0:
            _limit_change[0] = (lim0, lim1)


def limit_witness():
    """if an earlier assembly changed the recursion limit of the interpreter: a source text whose outcome depends on it
    ('.word 1 + 1 + ... + 1' needs about one stack frame per term) -> None or a diff triple"""
    if not _limit_change[0]:
        return None
    import inspect
    lo, hi = sorted(_limit_change[0])
    depth = len(inspect.stack(0))
    n = lo - depth + 300
    if n < 50 or n + depth + 300 > hi:
        return None
    text = "\t.word " + " + ".join(["1"] * n) + "\n"
    cur = sys.getrecursionlimit()
    res = {}
    try:
        for lim in (lo, hi):
            sys.setrecursionlimit(lim)
            out = driver.assemble([("/vf/deep.mac", text)], repair=False)
            res[lim] = out.kind + (":" + out.exc[0] if out.exc else "")
    finally:
        sys.setrecursionlimit(cur)
    if res[lo] != res[hi]:
        return ("interpreter-state", "recursion-limit", f"an earlier assembly changed the interpreter's recursion limit from {_limit_change[0][0]} to {_limit_change[0][1]}: "
                f"'.word 1 + 1 + ... + 1' with {n} terms ends with {res[_limit_change[0][0]]} before it and with {res[_limit_change[0][1]]} after it")
    return None


def _do_step(step):
    kind, idx, k = step
    pool = {"valid": VALID, "invalid": INVALID, "critical": CRITICAL, "raising": RAISING, "cli": VALID + INVALID}[kind]
    tree = pool[idx % len(pool)]
    root = write_tree(tree)
    mains = [m for m in ("p.mac", "q.mac") if m in tree]
    if kind == "cli":
        class S:
            path = root

            def snapshot(self):
                return {}
        driver.run_cli(S(), mains + (["-o", "hist.bin"] if idx % 2 else ["-o", "p.bin", "--lst"]), cwd=root)   # half of them at the probe's own output paths
        # plus the same through main_cli inside this interpreter
        p = driver.pd()
        old_argv, old_cwd = sys.argv, os.getcwd()
        import io
        import contextlib
        try:
            os.chdir(root)
            sys.argv = ["pdpy11"] + mains + ["-o", "hist2.bin"]
            with contextlib.redirect_stdout(io.StringIO()), contextlib.redirect_stderr(io.StringIO()):
                try:
                    p.cli.main_cli()
                except SystemExit:
                    pass
                except BaseException:  # noqa - a crash of the entry point is part of the history, not of the harness
                    pass
        finally:
            sys.argv = old_argv
            os.chdir(old_cwd)
        return
    files = [(os.path.join(root, m), tree[m]) for m in mains]
    if kind == "raising":
        calls = [0]

        def make(rec):
            def h(priority, identifier, *spans):
                calls[0] += 1
                if calls[0] == 1 + k % 3:
                    raise Boom(identifier)
                rec(priority, identifier, *spans)
            return h
        driver.assemble(files, repair=False, make_handler=make)
    else:
        driver.assemble(files, repair=False)


def diff(base, now):
    for name in base:
        if base[name] != now.get(name):
            b, n = base[name], now.get(name)
            field = next((k for k in b if not isinstance(n, dict) or b[k] != n.get(k)), "?")
            return name, field, f"probe '{name}': field '{field}' was {json.dumps(b.get(field))[:300]} in a fresh process, now {json.dumps(n.get(field) if isinstance(n, dict) else n)[:300]}"
    return None


_last = {"history": None, "diff": None}
_stats = {"steps": 0, "probe_runs": 0, "histories": {}, "lengths": []}


def make_machine(baseline):
    class History(RuleBasedStateMachine):
        def __init__(self):
            super().__init__()
            self.history = []
            clean_outputs()
            _limit_change[0] = None
            driver.reset_state()      # each machine starts from a clean interpreter state (pdpy11 itself stays loaded)
            p = driver.pd()
            # class-level state a broken tree may have introduced cannot be reset generically: a fresh process per shard bounds it

        @rule(idx=st.integers(0, 20))
        def valid(self, idx):
            self.history.append(["valid", idx, 0])
            do_step(self.history[-1])

        @rule(idx=st.integers(0, 20))
        def invalid(self, idx):
            self.history.append(["invalid", idx, 0])
            do_step(self.history[-1])

        @rule(idx=st.integers(0, 20))
        def critical(self, idx):
            self.history.append(["critical", idx, 0])
            do_step(self.history[-1])

        @rule(idx=st.integers(0, 20), k=st.integers(0, 2))
        def raising(self, idx, k):
            self.history.append(["raising", idx, k])
            do_step(self.history[-1])

        @rule(idx=st.integers(0, 20))
        def cli(self, idx):
            self.history.append(["cli", idx, 0])
            do_step(self.history[-1])

        def teardown(self):
            # measured coverage: one entry per distinct history, with its non-triviality
            kinds = [s_[0] for s_ in self.history]
            nt = "invalid" in kinds and ("raising" in kinds or "critical" in kinds)
            _stats["histories"][core.digest(self.history)] = nt
            _stats["lengths"].append(len(self.history))

        @invariant()
        def probes_unchanged(self):
            _stats["probe_runs"] += 1
            _stats["steps"] = _stats["steps"] + (1 if self.history else 0)
            now = all_probes()
            d = diff(baseline, now) or limit_witness()
            if d:
                _last["history"] = list(self.history)
                _last["diff"] = d
                raise AssertionError(d[2])
    return History


def shards(tier):
    specs = [{"part": "hashseeds", "seeds": ["0", "1", "2", "3", "random"] if tier == "quick" else [str(i) for i in range(24)] + ["random"],
              "programs": 60 if tier == "quick" else 200}]
    specs.append({"part": "enumerated"})
    k = 14
    n = 150 if tier == "quick" else 3000
    for i in range(k):
        specs.append({"part": "machine", "i": i, "machines": max(n // k, 4), "steps": 50 if i % 3 == 0 else 12})
    return specs


def run_shard(spec, ctx):
    if spec["part"] == "hashseeds":
        # programs generated once here; every child assembles the same texts
        progs = []

        @hypothesis.seed(core.seed_for(ctx.seed, "c18-programs"))
        @settings(max_examples=spec["programs"], database=None, deadline=None, suppress_health_check=list(HealthCheck), phases=[hypothesis.Phase.generate])
        @hypothesis.given(gen.program_st(max_files=2, const_addr=True, locals=True, skip=True))
        def collect(prog):
            c = progcheck.case_of(prog)
            c["texts"] = progcheck.texts_of(prog)
            progs.append(c)
        collect()
        results = {}
        for hs in spec["seeds"]:
            results[hs] = fresh_baseline(hs, progs)
            ctx.case(("hashseed", hs), True, ["hashseed-run"], sample=f"PYTHONHASHSEED={hs}: {len(PROBES) + 1} probes + {len(progs)} generated programs", evaluations=len(progs) + len(PROBES) + 1)
        first = results[spec["seeds"][0]]
        for hs in spec["seeds"][1:]:
            d = diff(first["probes"], results[hs]["probes"])
            if d:
                ctx.fail(f"hashseed:{d[0]}:{d[1]}", f"PYTHONHASHSEED={spec['seeds'][0]} vs {hs}: {d[2]}", {"kind": "hashseed", "a": spec["seeds"][0], "b": hs})
            for i, (x, y) in enumerate(zip(first["programs"], results[hs]["programs"])):
                if x != y:
                    ctx.fail("hashseed:generated-program", f"PYTHONHASHSEED={spec['seeds'][0]} vs {hs}: generated program {i} differs: {json.dumps(x)[:300]} vs {json.dumps(y)[:300]}",
                             {"kind": "hashseed-prog", "prog": progs[i], "a": spec["seeds"][0], "b": hs})
                    break
        return
    if spec["part"] == "enumerated":
        # every program of every pool once, in pool order and in reverse, outside the property-testing library (which manages the
        # interpreter's stack limit itself): probes and the recursion-limit witness after every step
        baseline = fresh_each()
        seq = [[kind, i, k_] for kind, pool in (("valid", VALID), ("invalid", INVALID), ("critical", CRITICAL), ("raising", RAISING), ("cli", VALID + INVALID))
               for i in range(len(pool)) for k_ in ((0, 1, 2) if kind == "raising" else (0,))]
        for order in (seq, seq[::-1]):
            driver.reset_state()
            clean_outputs()
            _limit_change[0] = None
            hist = []
            for step in order:
                hist.append(step)
                do_step(step)
                d = diff(baseline, all_probes()) or limit_witness()
                ctx.case(repr(hist), len(hist) > 3, ["enumerated-history"], sample={"history": hist[-3:]} if len(hist) == 5 else None, evaluations=len(PROBES) + 1)
                if d:
                    ctx.fail(f"history:{d[0]}:{d[1]}", d[2] + f"\nhistory: {hist}", {"kind": "history", "steps": list(hist)})
                    break
        return
    baseline = fresh_each()
    # sanity: this very process, before any history, must agree with the fresh one
    d = diff(baseline, all_probes())
    if d:
        ctx.fail(f"fresh-vs-first:{d[0]}:{d[1]}", "the first assembly in a long-lived process differs from a fresh process: " + d[2], {"kind": "history", "steps": []})
        return
    Machine = make_machine(baseline)
    excluded = set()
    for m in range(4):     # collect-then-shrink over signatures
        _last["history"] = None
        try:
            run_state_machine_as_test(
                hypothesis.seed(core.seed_for(ctx.seed, "c18", spec["i"], m))(Machine),
                settings=settings(max_examples=spec["machines"], stateful_step_count=spec["steps"], deadline=None, database=None, report_multiple_bugs=False,
                                  suppress_health_check=list(HealthCheck), print_blob=False))
            break
        except (AssertionError, hypothesis.errors.Flaky) as ex:
            hist, d = _last["history"], _last["diff"]
            if hist is None:
                raise
            kinds = {s[0] for s in hist}
            sig = f"history:{d[0]}:{d[1]}"
            note = ""
            if isinstance(ex, hypothesis.errors.Flaky):
                # the deviation was observed, but not again when the same history was run once more: the result of an assembly
                # is not a function of its inputs and the history at all
                sig = f"history:not-reproducible:{d[0]}:{d[1]}"
                note = "\n(the same history did not deviate when it was executed again: the deviation is sporadic)"
            ctx.fail(sig, d[2] + note + f"\nhistory: {hist}", {"kind": "history", "steps": hist, "sporadic": bool(note)})
            ctx.case(repr(hist), True, ["failing-history"], sample={"history": hist})
            driver.reset_state()
            break
    # evidence: measured by the machines themselves
    ctx.evaluations += _stats["probe_runs"] * (len(PROBES) + 1) + _stats["steps"]
    for h, nt in _stats["histories"].items():
        if nt:
            ctx.nontrivial.add(h)
    ctx.classes["histories"] += len(_stats["histories"])
    ctx.classes["histories-nontrivial"] += sum(1 for v in _stats["histories"].values() if v)
    ctx.classes["history-steps"] += _stats["steps"]
    ctx.classes["probe-set-runs"] += _stats["probe_runs"]
    ctx.classes[f"max-steps-{spec['steps']}"] += len(_stats["histories"])
    if _stats["lengths"]:
        ctx.classes["longest-history-%d" % max(_stats["lengths"])] += 1
    ctx.samples.append({"machine": f"up to {spec['steps']} steps drawn from valid/invalid/critical/raising/cli assemblies; {len(PROBES) + 1} probes re-run after every step"})


def replay(case):
    if case["kind"] == "history":
        baseline = fresh_each()
        driver.reset_state()
        clean_outputs()
        _limit_change[0] = None
        for s in case["steps"]:
            do_step(s)
        d = diff(baseline, all_probes()) or limit_witness()
        for _ in range(30 if case.get("sporadic") and not d else 0):
            # a sporadic deviation: repeat the probe set, any deviation counts
            d = diff(baseline, all_probes())
            if d:
                break
        return [(f"history:{'not-reproducible:' if case.get('sporadic') else ''}{d[0]}:{d[1]}", d[2])] if d else []
    if case["kind"] == "hashseed":
        a = fresh_baseline(case["a"])["probes"]
        b = fresh_baseline(case["b"])["probes"]
        d = diff(a, b)
        return [(f"hashseed:{d[0]}:{d[1]}", d[2])] if d else []
    if case["kind"] == "hashseed-prog":
        a = fresh_baseline(case["a"], [case["prog"]])["programs"]
        b = fresh_baseline(case["b"], [case["prog"]])["programs"]
        return [("hashseed:generated-program", "results differ")] if a != b else []
    return oracle.replay_generic(case)
