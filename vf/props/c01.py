"""C01 - machine-code fidelity of every instruction form (encoder AND decoder differential against R1)."""
import itertools
import struct

from hypothesis import strategies as st

from .. import core, driver, oracle, render
from ..ref import pdp11 as P

ID = "C01"
LEVEL = "exploration"
RULE = ("exhaustive over forms: every mnemonic pdpy11 accepts (cross-checked with the reference table in both directions) x every "
        "operand-form tuple of its format (66 general forms = 8 modes x 8 registers without (pc)+/@(pc)+ plus #x @#x x @x; registers; "
        "ac0-ac5 / ac0-ac3; every value of every inline field with both rejected neighbours); random over values: 5-40 instruction "
        "programs with drawn operand values (16-bit boundaries), literal or symbolic spelling (defined before or after use), "
        "labels, link bases and number/register spellings, one program in four standing in an included or second linked file "
        "that starts at a non-zero offset; cli: character-literal operands under every --charset through the command line; names: every mnemonic next to a constant or label of the same name, and every branch "
        "mnemonic to numeric local labels (also names with the digits 8 and 9, with decoy labels). Oracle: R1 encoder bytes == image AND R1 decoder(image) == generated "
        "operation. Non-trivial: instruction with >= 1 operand or inline field; distinct by (mnemonic, operand forms) in the "
        "exhaustive part and by program text in the random part.")
ASSUMPTIONS = ["vf/ref/pdp11.py is the PDP-11 reference (handbook rows independent; rows in PINNED are change detection only)",
               "explicit (pc)+ and @(pc)+ are excluded: written that way the operand word is not part of the instruction",
               "FP 2-bit accumulator fields take ac0-ac3 (ac4/ac5 are outside the legal domain)",
               "emt/trap/sys accept -255..255 stored modulo 256 (pdpy11's documented signed field)"]

BATCH = 250
BASES = [None, 0, 0o100000, 0o157000, 0o2000, 0o40000]


def general_forms(xa, xb):
    """all 66 general operand forms; xa / xb are the values used for index/immediate and address words"""
    forms = []
    for n in range(8):
        forms.append(("reg", n))
        forms.append(("ind", n))
        if n != 7:
            forms.append(("inc", n))
            forms.append(("incd", n))
        forms.append(("dec", n))
        forms.append(("decd", n))
        forms.append(("idx", n, xa))
        forms.append(("idxd", n, xb))
    forms += [("imm", xa), ("abs", xb), ("rel", xb), ("reld", xa)]
    return forms


def fp_forms(xa, xb):
    return [("ac", n) for n in range(6)] + [f for f in general_forms(xa, xb) if f[0] != "reg"]


def sig_forms(sig, xa, xb):
    if sig == "G":
        return general_forms(xa, xb)
    if sig == "F":
        return fp_forms(xa, xb)
    if sig == "R":
        return [("reg", n) for n in range(8)]
    if sig == "A":
        return [("ac", n) for n in range(4)]
    raise ValueError(sig)


def to_model(op):
    """R1 operand with concrete ints -> model operand with ("num", v) expressions"""
    k = op[0]
    if k in ("idx", "idxd"):
        return (k, op[1], ("num", op[2]))
    if k in ("imm", "abs", "rel", "reld", "num"):
        return (k, ("num", op[1]))
    return op


def form_key(mn, ops):
    return (mn,) + tuple((o[0], o[1]) if o[0] in ("reg", "ind", "inc", "incd", "dec", "decd", "idx", "idxd", "ac") else (o[0],) for o in ops)


def shards(tier):
    specs = []
    mns = P.mnemonics()
    singles = [m for m in mns if len(P.signature(m)) <= 1 or P.signature(m) in (["R", "G"], ["G", "R"], ["F", "A"], ["A", "F"], ["G", "A"], ["A", "G"], ["R", "S"])]
    doubles = [m for m in mns if P.signature(m) == ["G", "G"]]
    for i in range(4):
        specs.append({"part": "forms", "mns": singles[i::4]})
    frac = 0.06 if tier == "quick" else 1.0
    for m in doubles:
        specs.append({"part": "double", "mn": m, "frac": frac})
    specs.append({"part": "inline"})
    specs.append({"part": "tables"})
    specs.append({"part": "cli"})
    specs.append({"part": "names", "half": 0})
    specs.append({"part": "names", "half": 1})
    k = 16
    per = (1600 if tier == "quick" else 20000) // k
    for i in range(k):
        specs.append({"part": "random", "i": i, "examples": per})
    return specs


def build_program(insns, base):
    """insns: list of (mn, ops with concrete ints). Returns (text, expected image, [(addr, mn, ops, nwords)])"""
    lines = []
    if base is not None:
        lines.append(f"\t.link {base:o}")
    addr = 0o1000 if base is None else base
    image = b""
    layout = []
    for mn, ops in insns:
        ops = [("tgt", addr + 2 + o[1]) if o[0] == "tgtd" else o for o in ops]
        words = P.encode(mn, ops, addr)
        lines += render.stmt_lines({"k": "insn", "mn": mn, "ops": [to_model(o) if o[0] != "tgt" else ("tgt", tgt_expr(o[1], addr)) for o in ops]})
        layout.append((addr, mn, ops, len(words)))
        image += b"".join(struct.pack("<H", w) for w in words)
        addr += 2 * len(words)
    return "\n".join(lines) + "\n", image, layout


def tgt_expr(target, addr):
    d = target - addr
    if d >= 0:
        return ("bin", "+", ("dot",), ("num", d))
    return ("bin", "-", ("dot",), ("num", -d))


def decode_check(code, base, layout):
    """independent decoder over the emitted image at statement boundaries -> None or message"""
    start = base
    for addr, mn, ops, nwords in layout:
        off = addr - start
        words = [struct.unpack_from("<H", code, off + 2 * i)[0] for i in range(min(3, (len(code) - off) // 2))]
        if not words:
            return f"{mn} at {addr:o}: image ends before the instruction"
        try:
            name, dops, used = P.decode(words, addr)
        except (P.DecodeError, AssertionError) as ex:
            return f"{mn} at {addr:o}: emitted {words[0]:06o} does not decode: {ex}"
        want_name, want_ops = P.normalize(mn, ops, addr)
        if name != want_name:
            return f"{mn} {ops} at {addr:o}: decodes as {name} {dops}"
        if [tuple(o) for o in dops] != [tuple(o) for o in want_ops]:
            return f"{mn} at {addr:o}: operands {want_ops} decode as {dops}"
        if used != nwords:
            return f"{mn} at {addr:o}: decoder consumes {used} words, statement emitted {nwords}"
    if len(code) != layout[0][0] - base + sum(2 * l[3] for l in layout):
        return f"image has {len(code)} bytes, instructions account for {layout[0][0] - base + sum(2 * l[3] for l in layout)}"
    return None


def run_batch(ctx, insns, base, label):
    text, image, layout = build_program(insns, base)
    out = driver.assemble([("/vf/c01.mac", text)])
    bad = None
    if out.kind != "ok":
        bad = f"batch ended with {out.kind} {sorted(set(out.error_ids()))} {out.exc}"
    elif out.base != (0o1000 if base is None else base):
        bad = f"base {out.base:o}"
    elif out.code != image:
        bad = "encoder bytes differ"
    else:
        bad = decode_check(out.code, out.base, layout)
    if bad is None:
        return
    found = 0
    for mn, ops in insns:
        case = single_case(mn, ops, base)
        for sig, msg in replay(case):
            ctx.fail(f"{label}:{sig}:{mn}", msg, case)
            found += 1
    if not found:
        ctx.fail(f"{label}:batch-only", bad, {"kind": "insns", "insns": [[mn, ops] for mn, ops in insns], "base": base})


def single_case(mn, ops, base):
    return {"kind": "insns", "insns": [[mn, [list(o) for o in ops]]], "base": base}


def replay(case):
    if case["kind"] in ("expect", "equiv"):
        return oracle.replay_generic(case)
    if case["kind"] == "cli-charset":
        charset, ch = case["charset"], case["ch"]
        byte = ch.encode(charset if charset != "bk" else "koi8-r")[0]
        src = f"\tmov #'{ch}, r0\n"
        with driver.Scratch({"prog.mac": src}) as sc:
            res = driver.run_cli(sc, ["prog.mac", "-o", "prog.raw", "--charset", charset])
            got = sc.read("prog.raw") if "prog.raw" in res.after else None
        return [] if res.status == 0 and got == struct.pack("<HH", 0o012700, byte) else [(f"cli:charset:{charset}", f"{src!r}: exit {res.status}, image {got.hex() if got else None}")]
    if case["kind"] == "prog":
        return replay_prog(case)
    insns = [(mn, [tuple(o) for o in ops]) for mn, ops in case["insns"]]
    base = case["base"]
    try:
        text, image, layout = build_program(insns, base)
    except P.EncodeError as ex:
        # must be rejected with that identifier
        lines = ([f"\t.link {base:o}"] if base is not None else [])
        for mn, ops in insns:
            lines += render.stmt_lines({"k": "insn", "mn": mn, "ops": [to_model(o) if o[0] != "tgtd" else ("tgt", tgt_expr(o[1] + 2, 0)) for o in ops]})
        c = oracle.expect_error(oracle.single("\n".join(lines) + "\n"), [ex.kind])
        return oracle.check_expect(c, prefix="reject:")
    out = driver.assemble([("/vf/c01.mac", text)])
    if out.kind != "ok":
        return [(f"{out.kind}" + (f":{out.exc[0]}@{out.exc[1]}" if out.exc else ""), f"{text!r} -> {out.kind} {sorted(set(out.error_ids()))} {out.exc}")]
    if out.base != (0o1000 if base is None else base):
        return [("base", f"{text!r}: base {out.base:o}")]
    fails = []
    if out.code != image:
        fails.append(("encoder", f"{text!r}: emitted {out.code.hex()}, reference encoder says {image.hex()}"))
    msg = decode_check(out.code, out.base, layout)
    if msg:
        fails.append(("decoder", f"{text!r}: {msg}"))
    return fails


# ---------------------------------------------------------------------------

def run_shard(spec, ctx):
    part = spec["part"]
    if part == "forms":
        for mn in spec["mns"]:
            sig = P.signature(mn)
            combos = [[]]
            for s in sig:
                if s in "GFRA":
                    combos = [c + [f] for c in combos for f in sig_forms(s, 0o1234, 0o5670)]
                elif s == "B":
                    combos = [c + [("tgtd", d)] for c in combos for d in (-256, -2, 0, 2, 254)]
                elif s == "S":
                    combos = [c + [("tgtd", d)] for c in combos for d in (-126, -64, -2, 0)]
                elif s[0] == "N":
                    bits = int(s[1])
                    combos = [c + [("num", v)] for c in combos for v in (0, 1, (1 << bits) - 1, (1 << bits) // 2)]
            base_i = 0
            for b in range(0, len(combos), BATCH):
                base = BASES[base_i % len(BASES)]
                base_i += 1
                insns = []
                for ops in combos[b:b + BATCH]:
                    insns.append((mn, ops))
                    ctx.case(form_key(mn, ops) + tuple(o[1] for o in ops if o[0] in ("tgtd", "num")), bool(ops),
                             ["form-" + "".join(sig) if sig else "form-none"],
                             sample=render.stmt_lines({"k": "insn", "mn": mn, "ops": [to_model(o) if o[0] != "tgtd" else ("tgt", tgt_expr(o[1] + 2, 0)) for o in ops]})[0].strip()
                             if len(insns) == 3 else None)
                run_batch(ctx, insns, base, "forms")
    elif part == "double":
        mn = spec["mn"]
        forms_a = general_forms(0o1234, 0o5670)
        forms_b = general_forms(0o177776, 0o4321)
        pairs = list(itertools.product(forms_a, forms_b))
        if spec["frac"] < 1:
            step = int(1 / spec["frac"])
            offset = core.seed_for(ctx.seed, mn) % step
            pairs = pairs[offset::step]
        for bi, b in enumerate(range(0, len(pairs), BATCH)):
            base = BASES[bi % len(BASES)]
            insns = [(mn, [a, bb]) for a, bb in pairs[b:b + BATCH]]
            for _, ops in insns:
                ctx.case(form_key(mn, ops), True, ["form-GG"])
            ctx.samples.append(render.stmt_lines({"k": "insn", "mn": mn, "ops": [to_model(o) for o in insns[0][1]]})[0].strip())
            run_batch(ctx, insns, base, "double")
    elif part == "inline":
        for mn in P.mnemonics():
            sig = P.signature(mn)
            if not sig or sig[-1][0] != "N":
                continue
            bits = int(sig[0][1])
            lo, hi = (-256, 257) if bits == 8 else (-1, (1 << bits) + 1)
            good, bad = [], []
            for v in range(lo, hi):
                try:
                    P.encode(mn, [("num", v)], 0o1000)
                    good.append(v)
                except P.EncodeError:
                    bad.append(v)
                ctx.case((mn, v), True, ["inline-ok" if v in good else "inline-reject"], sample=f"{mn} {v}." if v in (lo, hi - 1, 7) else None)
            run_batch(ctx, [(mn, [("num", v)]) for v in good], None, "inline")
            for v in bad:
                case = single_case(mn, [("num", v)], None)
                for sig_, msg in replay(case):
                    ctx.fail(f"inline:{sig_}:{mn}", msg, case)
    elif part == "tables":
        # the mnemonic sets must agree in both directions; synonyms must encode identically
        p = driver.pd()
        theirs = {k.lower() for k in p.insns.instructions}
        ours = set(P.mnemonics())
        ctx.case("mnemonic-set", True, ["table"], sample=f"{len(theirs)} mnemonics accepted, {len(ours)} in the reference")
        if theirs - ours:
            ctx.fail("tables:unknown-mnemonic", f"accepted but not in the reference: {sorted(theirs - ours)}", {"kind": "insns", "insns": [], "base": None})
        if ours - theirs:
            missing = sorted(ours - theirs)
            ctx.fail("tables:missing-mnemonic", f"not accepted: {missing}", single_case(missing[0], [], None))
        ctx.extra["mnemonics"] = len(ours)
        ctx.extra["reference_rows_pinned"] = len(P.PINNED)
        ctx.extra["reference_rows_independent"] = len(ours) - len(P.PINNED)
        ctx.extra["reference_selfcheck_first_words"] = P.self_check()
        for canon, names in render.SYNONYMS.items():
            if len(names) < 2:
                continue
            sig = P.signature(canon)
            ops = []
            for s in sig:
                ops.append({"G": ("idx", 3, 0o1234), "F": ("dec", 2), "R": ("reg", 5), "A": ("ac", 2), "B": ("tgtd", 8),
                            "S": ("tgtd", -8), "N8": ("num", 0o123), "N6": ("num", 0o45), "N3": ("num", 5)}[s])
            variants = []
            for n in names:
                text, _, _ = build_program([(n, ops)], None)
                variants.append(oracle.single(text))
            ctx.case(("syn", canon), True, ["synonym-class"], sample=" == ".join(names))
            case = {"kind": "equiv", "variants": variants}
            for sg, msg in oracle.check_equiv(case, prefix="synonym:"):
                ctx.fail(sg + ":" + canon, msg, case)
    elif part == "cli":
        # the command line is part of "what was written": character-literal operands under every --charset, through the real entry
        # point (the value of 'c is the character's byte in the selected charset)
        import os
        chars = {"bk": "aяЖ", "koi8-r": "aяЖ", "cp866": "aяЖ", "latin-1": "aéÿ", "utf-8": "a~"}
        for charset, pool in chars.items():
            for ch in pool:
                byte = ch.encode(charset if charset != "bk" else "koi8-r")[0]
                src = f"\tmov #'{ch}, r0\n\tcmpb #'{ch}', (r1)+\n\tmov '{ch}(r2), @#'{ch}\n\t.word '{ch}\n"
                want = b"".join(struct.pack("<H", w) for w in (0o012700, byte, 0o122721, byte, 0o016237, byte, byte, byte))
                for argv_cs in ([["--charset", charset]] + ([[]] if charset == "bk" else [])):
                    with driver.Scratch({"prog.mac": src}) as sc:
                        res = driver.run_cli(sc, ["prog.mac", "-o", "prog.raw"] + argv_cs)
                        got = sc.read("prog.raw") if "prog.raw" in res.after else None
                    ctx.case((charset, ch, bool(argv_cs)), True, ["cli-charset-" + charset], sample=f"--charset {charset}: mov #'{ch}, r0" if ch != "a" and argv_cs else None)
                    if res.status != 0 or got != want:
                        ctx.fail(f"cli:charset:{charset}", f"pdpy11 prog.mac -o prog.raw {' '.join(argv_cs)} on {src!r}: exit {res.status}, image {got.hex() if got else None}, "
                                 f"expected {want.hex()}\n{res.stderr.decode('utf-8', 'replace')[-300:]}", {"kind": "cli-charset", "charset": charset, "ch": ch})
    elif part == "names":
        # (a) a symbol that carries the name of a mnemonic (constant before / label before / constant after the use) does not
        # change what the mnemonic assembles to; (b) branches to numeric local labels, also names with the digits 8 and 9
        canon_ops = {"G": ("idx", 3, 0o1234), "F": ("dec", 2), "R": ("reg", 5), "A": ("ac", 2), "B": ("tgtd", 6), "S": ("tgtd", -4),
                     "N8": ("num", 0o123), "N6": ("num", 0o45), "N3": ("num", 5)}
        for i, mn in enumerate(P.mnemonics()):
            if i % 2 != spec["half"]:
                continue
            ops = [canon_ops[s_] for s_ in P.signature(mn)]
            for how in ("const-before", "label-before", "const-after"):
                pre = {"const-before": f"{mn} = 1234\n", "label-before": f"{mn}:\n", "const-after": ""}[how]
                post = f"{mn} = 1234\n" if how == "const-after" else ""
                a0 = 0o1000
                real = [("tgt", a0 + 2 + o[1]) if o[0] == "tgtd" else o for o in ops]
                words = P.encode(mn, real, a0)
                line = render.stmt_lines({"k": "insn", "mn": mn, "ops": [to_model(o) if o[0] != "tgtd" else ("tgt", tgt_expr(o[1] + 2, 0)) for o in ops]})
                text = pre + "\n".join(line) + "\n\t.word " + mn + "\n" + post
                want = b"".join(struct.pack("<H", w) for w in words) + struct.pack("<H", a0 if how == "label-before" else 0o1234)
                ctx.case(text, True, ["name-" + how], sample=text if (i, how) in ((0, "const-before"), (7, "label-before")) else None)
                case = oracle.expect_ok(oracle.single(text), want, base=a0)
                for sg, msg in oracle.check_expect(case, prefix=f"names:{how}:"):
                    ctx.fail(sg, f"{text!r}: {msg}", case)
        if spec["half"] == 1:
            # symbols whose names begin like a register / accumulator name are ordinary symbols
            for name in ("r0save", "r5tmp", "r10", "r7x", "spx", "pcx", "sp1", "ac0x", "r", "r8", "pc0", "R3B"):
                text = f"\tmov r0, {name}\n\tjsr pc, {name}\n\tclr @{name}\n\tmov #{name}, {name}(r1)\n{name}:\tnop\n"
                a = 0o1000
                t = a + 4 + 4 + 4 + 6
                words = P.encode("mov", [("reg", 0), ("rel", t)], a) + P.encode("jsr", [("reg", 7), ("rel", t)], a + 4) + P.encode("clr", [("reld", t)], a + 8) \
                    + P.encode("mov", [("imm", t), ("idx", 1, t)], a + 12) + [0o240]
                case = oracle.expect_ok(oracle.single(text), b"".join(struct.pack("<H", w) for w in words), base=a)
                ctx.case(text, True, ["name-like-register"], sample=text if name == "r0save" else None)
                for sg, msg in oracle.check_expect(case, prefix="names:like-register:"):
                    ctx.fail(sg, f"{text!r}: {msg}", case)
        if spec["half"] == 0:
            for mn in [m for m in P.mnemonics() if P.signature(m) in (["B"], ["R", "S"])]:
                reg = "r3, " if P.signature(mn) != ["B"] else ""
                for name in ("8", "9", "18", "89", "1", "7", "08", "10", "10$", "8$", "19$"):
                    ref = name
                    variants = {"back": f"scope:\n{name}:\t{mn} {reg}{ref}\n", "back-far": f"scope:\n{name}:\tnop\n\tnop\n\t{mn} {reg}{ref}\n",
                                "fwd": f"scope:\t{mn} {reg}{ref}\n{name}:\tnop\n", "decoy": f"scope:\n10:\tnop\n11:\tnop\n22:\tnop\n{name}:\tnop\n\t{mn} {reg}{ref}\n" if name not in ("10",) else None}
                    for vk, text in variants.items():
                        if text is None:
                            continue
                        at = {"back": 0, "back-far": 4, "fwd": 0, "decoy": 8}[vk]
                        tgt = {"back": 0, "back-far": 0, "fwd": 2, "decoy": 6}[vk]
                        real = ([("reg", 3)] if reg else []) + [("tgt", 0o1000 + tgt)]
                        try:
                            word = P.encode(mn, real, 0o1000 + at)[0]
                        except P.EncodeError:
                            continue      # sob cannot go forward
                        ctx.case(text, True, ["local-branch-" + vk, "local-name-89" if set(name) & set("89") else "local-name-octal"], sample=text if (mn, name, vk) == ("br", "18", "decoy") else None)
                        out = driver.assemble([("/vf/c01n.mac", text)])
                        case = {"kind": "expect", "tree": {"main.mac": text}, "mains": ["main.mac"], "charset": "bk",
                                "expect": {"kind": "ok", "base": 0o1000, "code": (b"\xa0\x00" * (at // 2) + struct.pack("<H", word) + (b"\xa0\x00" if vk == "fwd" else b"")).hex()}}
                        got = out.code[at:at + 2] if out.kind == "ok" else None
                        if out.kind != "ok" or got != struct.pack("<H", word):
                            ctx.fail(f"names:local-branch:{vk}:{'89' if set(name) & set('89') else 'octal'}",
                                     f"{text!r}: {oracle.brief(out)}; the branch word must be {word:06o}", case)
    elif part == "random":
        run_random(spec, ctx)


# ---------------------------------------------------------------------------
# random programs: values, symbols, labels, bases, spellings

BOUNDARY = [0, 1, 2, 0o77777, 0o100000, 0o177776, 0o177777, -1, -2, -0o100000, -0o177777, 0o200000, -0o200000]
value16 = st.one_of(st.sampled_from(BOUNDARY), st.integers(-0o177777, 0o177777), st.integers(0, 0o1000))
addr16 = st.one_of(st.sampled_from([0, 2, 0o776, 0o1000, 0o100000, 0o177776, 0o177777, 0o1001]), st.integers(0, 0o177777))
MNS = P.mnemonics()
BY_SIG = {}
for _m in MNS:
    BY_SIG.setdefault("".join(P.signature(_m)) or "none", []).append(_m)
SIG_CLASSES = sorted(BY_SIG)
# operand-bearing classes are drawn more often than the 121 operand-less mnemonics
mnemonic_st = st.sampled_from(SIG_CLASSES + ["G", "GG", "GG", "G", "RG", "GR", "FA", "AF"]).flatmap(lambda c: st.sampled_from(BY_SIG[c]))


@st.composite
def operand_form(draw, sig):
    if sig in ("G", "F"):
        k = draw(st.sampled_from(["reg", "ind", "inc", "incd", "dec", "decd", "idx", "idxd", "imm", "abs", "rel", "reld", "idx", "rel", "imm"]))
        if sig == "F" and k == "reg":
            return ("ac", draw(st.integers(0, 5)))
        if k in ("reg", "ind", "dec", "decd"):
            return (k, draw(st.integers(0, 7)))
        if k in ("inc", "incd"):
            return (k, draw(st.integers(0, 6)))
        if k in ("idx", "idxd"):
            return (k, draw(st.integers(0, 7)), draw(value16))
        if k in ("imm",):
            return (k, draw(value16))
        return (k, draw(addr16))
    if sig == "R":
        return ("reg", draw(st.integers(0, 7)))
    if sig == "A":
        return ("ac", draw(st.integers(0, 3)))
    if sig == "B":
        return ("tgtd", draw(st.sampled_from([-256, -254, -2, 0, 2, 4, 252, 254])) if draw(st.booleans()) else 2 * draw(st.integers(-128, 127)))
    if sig == "S":
        return ("tgtd", -2 * draw(st.integers(0, 63)))
    bits = int(sig[1])
    if bits == 8:
        return ("num", draw(st.integers(-255, 255)))
    return ("num", draw(st.integers(0, (1 << bits) - 1)))


@st.composite
def random_program(draw):
    n = draw(st.integers(5, 40))
    items = []
    for _ in range(n):
        mn = draw(mnemonic_st)
        ops = [draw(operand_form(s)) for s in P.signature(mn)]
        symbolic = [draw(st.integers(0, 3)) for _ in ops]   # 0 literal, 1 symbol defined before, 2 symbol defined after, 3 literal
        items.append((mn, ops, symbolic, draw(st.integers(0, 5)) == 0))
    base = draw(st.sampled_from([None, None, 0, 0o2000, 0o100000, 0o170000, 0o1002]))
    ints = draw(st.lists(st.integers(0, 255), min_size=1, max_size=30))
    rules = draw(st.sets(st.sampled_from(["radix", "case-radix", "case-hexdigit", "reg-percent", "reg-sp-pc", "case-mnemonic",
                                           "case-register", "blanks", "legacy-deferred", "case-symbol"]), max_size=5))
    rep = None
    if draw(st.integers(0, 2)) == 0:
        start = draw(st.integers(0, n - 1))
        rep = [start, draw(st.integers(1, min(4, n - start))), draw(st.integers(0, 5))]
    # where the program stands: alone, or in an included / second linked file that starts at a non-zero offset
    wrap = None
    if draw(st.integers(0, 3)) == 0:
        wrap = [draw(st.sampled_from(["include", "second"])), 2 * draw(st.integers(1, 30))]
    return items, base, ints, sorted(rules), rep, wrap


def run_random(spec, ctx):
    def check(v):
        items, base, ints, rules, rep, wrap = v
        case = {"kind": "prog", "items": [[mn, [list(o) for o in ops], sym, lab] for mn, ops, sym, lab in items],
                "base": base, "ints": ints, "rules": rules, "repeat": rep}
        if wrap:
            case["wrap"] = wrap
        built = build_random(case)
        text = built[0]
        nt = any(ops for _, ops, _, _ in items)
        ctx.case(text, nt, ["random-ok" if built[1] is not None else "random-reject", f"base-{'default' if base is None else 'set'}"] + (["random-repeat"] if rep else []) + ([f"random-in-{wrap[0]}"] if wrap else [])
                 + ["style:" + r for r in built[3]], sample=text[:500] if ctx.evaluations % 23 == 5 else None)
        res = replay_prog(case, built)
        if res:
            return (res[0][0], res[0][1], case)
        return None

    core.hyp_search(ctx, random_program(), check, spec["examples"], "c01-random")


def build_random(case):
    """-> (text, image or None, layout, used style rules, expected error kinds, (tree, mains) or None)"""
    style = render.Style(case["ints"], case["rules"])
    base = case["base"]
    wrap = case.get("wrap")
    pad = wrap[1] if wrap else 0
    addr = (0o1000 if base is None else base) + pad
    pre, post, body = [], [], []
    if base is not None and not wrap:
        pre.append({"k": "link", "e": ("num", base)})
    image = b""
    layout = []
    errors = set()
    nsym = 0
    rep = case.get("repeat")  # [start index, length, count] or None
    items = case["items"]

    def place(mn, ops):
        """encode one copy at the current address"""
        nonlocal addr, image
        real = [("tgt", addr + 2 + o[1]) if o[0] == "tgtd" else o for o in ops]
        try:
            words = P.encode(mn, real, addr)
        except P.EncodeError as ex:
            errors.add(ex.kind)
            words = None
        if words is not None:
            layout.append((addr, mn, real, len(words)))
            image += b"".join(struct.pack("<H", w) for w in words)
            addr += 2 * len(words)
        else:
            addr += 2 * (1 + sum(1 for o in real if o[0] in ("idx", "idxd", "imm", "abs", "rel", "reld")))

    def statement(mn, ops, symbolic):
        nonlocal nsym
        mops = []
        for o, symb in zip(ops, symbolic):
            if o[0] == "tgtd":
                mops.append(("tgt", tgt_expr(o[1] + 2, 0)))
                continue
            m = to_model(o)
            if symb in (1, 2) and o[0] in ("idx", "idxd", "imm", "abs", "rel", "reld", "num"):
                name = f"kz{nsym}"
                nsym += 1
                if o[0] in ("idx", "idxd") and nsym % 2 and abs(m[-1][1]) < 0o170000:
                    # a compound index expression 'sym+d(rN)' / '-sym(rN)': pdpy11 regroups ("hoists") the register out of it
                    d = 2 + nsym % 5
                    if nsym % 3 == 0:
                        (pre if symb == 1 else post).append({"k": "assign", "name": name, "e": ("num", -m[-1][1])})
                        m = m[:-1] + (("un", "-", ("sym", name)),)
                    else:
                        (pre if symb == 1 else post).append({"k": "assign", "name": name, "e": ("num", m[-1][1] - d)})
                        m = m[:-1] + (("bin", "+", ("sym", name), ("num", d)),)
                else:
                    (pre if symb == 1 else post).append({"k": "assign", "name": name, "e": m[-1]})
                    m = m[:-1] + (("sym", name),)
            mops.append(m)
        return {"k": "insn", "mn": mn, "ops": mops}

    idx = 0
    while idx < len(items):
        if rep and idx == rep[0]:
            group = items[idx:idx + rep[1]]
            stmts = [statement(mn, [tuple(o) for o in ops], symbolic) for mn, ops, symbolic, _ in group]
            body.append({"k": "repeat", "e": ("num", rep[2]), "body": stmts})
            for _ in range(rep[2]):
                for mn, ops, _, _ in group:
                    place(mn, [tuple(o) for o in ops])
            idx += len(group)
            continue
        mn, ops, symbolic, lab = items[idx]
        if lab:
            body.append({"k": "label", "name": f"lq{idx}"})
        ops = [tuple(o) for o in ops]
        body.append(statement(mn, ops, symbolic))
        place(mn, ops)
        idx += 1
    text, _ = render.render_file(pre + body + post, style)
    files = None
    if wrap:
        head = (f"\t.link {base:o}\n" if base is not None else "") + f"\t.blkb {pad:o}\n"
        if wrap[0] == "include":
            files = ({"main.mac": head + "\t.include \"unit.mac\"\n", "unit.mac": text}, ["main.mac"])
        else:
            files = ({"a.mac": head, "b.mac": text}, ["a.mac", "b.mac"])
        text = "".join(f";;; {n}\n{t}" for n, t in sorted(files[0].items()))
        image = bytes(pad) + image
    return text, (None if errors else image), layout, sorted(style.used), errors, files


def replay_prog(case, built=None):
    text, image, layout, _, errors, files = built or build_random(case)
    if files:
        out, _ = driver.assemble_tree(files[0], files[1])
    else:
        out = driver.assemble([("/vf/c01r.mac", text)])
    if out.kind in ("crash", "timeout", "silent", "ok-with-errors"):
        return [(f"random:{out.kind}" + (f":{out.exc[0]}@{out.exc[1]}" if out.exc else ""), f"{out.kind} {out.exc} on {text!r}")]
    if errors:
        if out.kind == "ok":
            return [("random:accepted", f"expected {sorted(errors)} but assembled: {text!r}")]
        if not errors <= set(out.error_ids()):
            return [("random:wrong-error", f"expected {sorted(errors)}, got {sorted(set(out.error_ids()))}: {text!r}")]
        return []
    if out.kind != "ok":
        return [("random:rejected", f"valid program rejected with {sorted(set(out.error_ids()))}: {text!r}")]
    want_base = 0o1000 if case["base"] is None else case["base"]
    if out.base != want_base:
        return [("random:base", f"base {out.base:o} != {want_base:o}")]
    fails = []
    if out.code != image:
        i = next((i for i in range(min(len(image), len(out.code))) if image[i] != out.code[i]), min(len(image), len(out.code)))
        fails.append(("random:encoder", f"image differs from the reference encoder at offset {i}: {text!r}"))
    msg = decode_check(out.code, out.base, layout) if layout else None
    if msg:
        fails.append(("random:decoder", f"{msg}: {text!r}"))
    return fails
