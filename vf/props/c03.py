"""C03 - symbol values do not depend on definition order."""
import os
import struct

from hypothesis import strategies as st

from .. import core, driver, gen, model, oracle, progcheck, render
from ..ref import expr as X

ID = "C03"
LEVEL = "exploration"
RULE = ("(a) Hypothesis programs (1-3 files, includes, local labels, address-aliasing constants, label differences) in which every "
        "'name = expr' is position independent; a variant moves k definitions to other top-level positions of their file or permutes "
        "all of them; outcome class, base and bytes must be equal (and equal to the reference assembler's). (b) the 21 practice "
        "programs: movable top-level definitions located with pdpy11's own parser are cut and re-inserted at other statement "
        "boundaries. (c) definition chains a_i = a_(i+1) op k_i of depth 300 (additive) and 30 (non-linear operators) and definition DAGs a_i = c*a_(i+1) +- a_j +- k (depth 4, 9, 25: several "
        "paths lead to one symbol) written in "
        "forward, reverse and drawn order and used from an immediate, an index, a branch distance, a .blkb count, a .repeat count, a "
        "string <n> and a %<reg>; value also checked against the big-integer evaluator; unused definitions, one of them faulty, in all 120 "
        "orders of five statements (the build must fail with the same identifier in every order). Non-trivial: >= 1 definition moved across "
        ">= 1 of its uses (or a chain); distinct = distinct (original, variant) text pair.")
ASSUMPTIONS = ["a definition is position independent when its expression contains neither '.' nor a local label, and it is not moved across a '.once'",
               "diagnostics are compared by outcome class only"]

PRACTICE = os.path.join(core.REPO, "tests", "practice")


def shards(tier):
    specs = [{"part": "chains"}]
    n = 8
    for i in range(n):
        specs.append({"part": "practice", "i": i, "n": n, "variants": 5 if tier == "quick" else 200})
    k = 16
    per = (1600 if tier == "quick" else 40000) // k
    for i in range(k):
        specs.append({"part": "random", "i": i, "examples": per})
    return specs


# ---------------------------------------------------------------------------
# (a) generated programs

@st.composite
def case_st(draw):
    variant = draw(st.sampled_from(["plain", "files", "includes", "reuse"]))
    if variant == "reuse":
        # the C11 generator: the same few names private in several files, exported from others, local numbers reused
        from . import c11
        prog = draw(c11.c11_program())
        prog.setdefault("meta", {})
    else:
        opts = {"plain": dict(max_files=1), "files": dict(max_files=3), "includes": dict(max_files=2, includes=True)}[variant]
        prog = draw(gen.program_st(dyn_regs=True, const_addr=True, const_label_diff=True, locals=True, skip=True, **opts))
    # choose new positions for the definitions of each file
    moves = {}
    for path, stmts in prog["files"].items():
        defs = [i for i, s in enumerate(stmts) if s["k"] == "assign"]
        if not defs:
            continue
        mode = draw(st.sampled_from(["some", "some", "permute", "front", "back"]))
        n_other = len(stmts) - len(defs)
        if mode == "some":
            chosen = draw(st.lists(st.sampled_from(defs), min_size=1, max_size=3, unique=True))
            moves[path] = {"mode": "some", "moves": [[i, draw(st.integers(0, n_other))] for i in chosen]}
        elif mode == "permute":
            moves[path] = {"mode": "permute", "perm": draw(st.permutations(list(range(len(defs))))),
                           "pos": [draw(st.integers(0, n_other)) for _ in defs]}
        else:
            moves[path] = {"mode": mode}
    prog["meta"]["variant"] = variant
    return prog, moves


def apply_moves(prog, moves):
    """-> (new program, number of definitions that crossed at least one of their uses)"""
    files = {}
    crossed = 0
    for path, stmts in prog["files"].items():
        mv = moves.get(path)
        if not mv:
            files[path] = stmts
            continue
        defs = [s for s in stmts if s["k"] == "assign"]
        rest = [s for s in stmts if s["k"] != "assign"]
        # original position of each definition expressed in 'rest' coordinates
        orig = {}
        r = 0
        for s in stmts:
            if s["k"] == "assign":
                orig[id(s)] = r
            else:
                r += 1
        newpos = dict(orig)
        if mv["mode"] == "some":
            idx = [i for i, s in enumerate(stmts) if s["k"] == "assign"]
            for i, pos in mv["moves"]:
                if i < len(stmts) and stmts[i]["k"] == "assign":
                    newpos[id(stmts[i])] = min(pos, len(rest))
        elif mv["mode"] == "permute":
            order = [defs[i] for i in mv["perm"] if i < len(defs)]
            for d, pos in zip(order, mv["pos"]):
                newpos[id(d)] = min(pos, len(rest))
            defs = order
        elif mv["mode"] == "front":
            for d in defs:
                newpos[id(d)] = 0
        else:
            for d in defs:
                newpos[id(d)] = len(rest)
        # never put a definition in front of a leading base directive ('. =' must stay leading)
        lead = 1 if rest and rest[0]["k"] == "link" and rest[0].get("form") == "dot" else 0
        # ... nor across '.once' / '.end' (what stands behind them is not assembled at all in a second inclusion / ever)
        for i_, s_ in enumerate(rest):
            if s_["k"] in ("once", "end"):
                lead = max(lead, i_ + 1) if s_["k"] == "once" else lead
        out = list(rest)
        for d in sorted(defs, key=lambda d: -newpos[id(d)]):
            p = max(newpos[id(d)], lead)
            out.insert(p, d)
            lo, hi = sorted((orig[id(d)], p))
            name = d["name"]
            if any(uses(s, name) for s in rest[lo:hi]):
                crossed += 1
        files[path] = out
    return dict(prog, files=files), crossed


def uses(s, name):
    def in_expr(e):
        return any(n[0] == "sym" and n[1] == name for n in X.walk(e))
    if "e" in s and in_expr(s["e"]):
        return True
    for e in s.get("es", []):
        if in_expr(e):
            return True
    for o in s.get("ops", []):
        if len(o) > 1 and isinstance(o[-1], tuple) and in_expr(o[-1]):
            return True
    for c in s.get("chunks", []):
        if c[0] == "n" and in_expr(c[1]):
            return True
    for b in s.get("body", []):
        if uses(b, name):
            return True
    return False


def judge_pair(prog, variant):
    """-> fails or None (undecidable / inconclusive)"""
    r = model.assemble(prog)
    t1, t2 = progcheck.texts_of(prog), progcheck.texts_of(variant)
    o1, _ = progcheck.run_pd(prog, t1)
    o2, _ = progcheck.run_pd(variant, t2)
    fails = []
    for o, t, which in ((o1, t1, "original"), (o2, t2, "variant")):
        if o.kind == "timeout":
            raise core.Inconclusive("time budget")
        if o.kind in ("crash", "silent", "ok-with-errors"):
            fails.append((f"{o.kind}:{o.exc[0]}@{o.exc[1]}" if o.exc else o.kind, f"{which}: {o.kind} {o.exc}\n{progcheck.brief_texts(t)}"))
    if fails:
        return fails
    if not o1.same_result(o2):
        return [("order-dependent", f"original -> {oracle.brief(o1)}\nvariant  -> {oracle.brief(o2)}\n=== original\n{progcheck.brief_texts(t1)}=== variant\n{progcheck.brief_texts(t2)}")]
    if r.kind != "skip":
        res = progcheck.compare(r, o1, t1)
        if res:
            return [("reference:" + res[0], res[1])]
    return []


# ---------------------------------------------------------------------------
# (b) practice corpus: text surgery on pdpy11's own token spans

def movable_definitions(path, text):
    p = driver.pd()
    T = __import__("pdpy11.types", fromlist=["x"])
    ops = __import__("pdpy11.operators", fromlist=["x"])
    R = p.reports
    try:
        with R.handle_reports(lambda *a: None):
            f = p.parser.parse(path, text)
    except R.UnrecoverableError:
        return [], []
    top = f.body.insns

    def position_free(tok):
        if isinstance(tok, T.InstructionPointer):
            return False
        if isinstance(tok, T.Symbol):
            return not tok.name[0].isdigit()
        if isinstance(tok, ops.InfixOperator):
            return position_free(tok.lhs) and position_free(tok.rhs)
        if isinstance(tok, ops.UnaryOperator):
            return position_free(tok.operand)
        if isinstance(tok, T.ParenthesizedExpression):
            return position_free(tok.expr)
        return isinstance(tok, (T.Number, T.CharLiteral))
    defs = []
    bounds = []
    for ins in top:
        start, end = ins.ctx_start.pos, ins.ctx_end.pos
        if isinstance(ins, T.Assignment) and isinstance(ins.target, T.Symbol) and position_free(ins.value):
            defs.append((start, end))
        # a safe insertion point: start of a statement that begins a line with a letter, digit or dot
        line_start = text.rfind("\n", 0, start) + 1
        if text[line_start:start].strip() == "" and (text[start:start + 1].isalnum() or text[start:start + 1] in "._"):
            bounds.append(line_start)
    # cut only definitions that stand alone on their line(s)
    clean = []
    for start, end in defs:
        ls = text.rfind("\n", 0, start) + 1
        le = text.find("\n", end)
        le = len(text) if le == -1 else le
        tail = text[end:le].strip()
        if text[ls:start].strip() == "" and (tail == "" or tail.startswith(";")) and "\n" not in text[start:end]:
            clean.append((ls, le + 1, text[start:end]))
    return clean, bounds


def practice_variant(text, defs, bounds, choose):
    """move up to 3 definitions chosen by `choose(n)` -> new text"""
    k = 1 + choose(3)
    picked = sorted({choose(len(defs)) for _ in range(k)})
    pieces = [defs[i] for i in picked]
    targets = [bounds[choose(len(bounds))] for _ in pieces]
    # build by offsets: remove the lines, insert "def\n" at targets (targets inside removed lines are shifted to their start)
    edits = []
    for (ls, le, src), t in zip(pieces, targets):
        edits.append((ls, le, ""))
        edits.append((t, t, src + "\n"))
    edits.sort(key=lambda e: (e[0], e[1]))
    out, pos = [], 0
    for a, b, ins in edits:
        if a < pos:
            if ins:
                out.append(ins)
            continue
        out.append(text[pos:a])
        out.append(ins)
        pos = b
    out.append(text[pos:])
    return "".join(out)


# ---------------------------------------------------------------------------
# (c) chains

def chain_case(depth, ops_kind, order, use, seed):
    import random
    rnd = random.Random(seed)   # deterministic construction of a *fixed* family; enumeration, not sampling inside a property
    names = [f"ch{i}" for i in range(depth + 1)]
    defs = []
    val = rnd.randrange(1, 200)
    vals = [None] * (depth + 1)
    vals[depth] = val
    defs.append((depth, ("num", val)))
    for i in range(depth - 1, -1, -1):
        if ops_kind == "dag":
            # two references per definition: a_i = c1*a_(i+1) +- a_j +- k with j > i drawn (diamonds: several paths to one symbol)
            j = rnd.randrange(i + 1, depth + 1)
            c1 = rnd.choice([1, 1, 2, 3])
            o1, o2, k = rnd.choice(["+", "-"]), rnd.choice(["+", "-"]), rnd.randrange(0, 50)
            first = ("sym", names[i + 1]) if c1 == 1 else ("bin", "*", ("num", c1), ("sym", names[i + 1]))
            e = ("bin", o2, ("bin", o1, first, ("sym", names[j])), ("num", k))
            vals[i] = X.binop(o2, X.binop(o1, c1 * vals[i + 1], vals[j]), k)
            defs.append((i, e))
            continue
        if ops_kind == "neg":
            # through unary minus: a_i = -a_(i+1) + k
            k = rnd.randrange(0, 50)
            defs.append((i, ("bin", "+", ("un", "-", ("sym", names[i + 1])), ("num", k))))
            vals[i] = -vals[i + 1] + k
            continue
        if ops_kind == "add":
            op, k = rnd.choice(["+", "-"]), rnd.randrange(0, 50)
        else:
            op, k = rnd.choice([("*", 3), ("/", 2), ("%", 251), ("<<", 1), (">>", 1), ("&", 0o7777), ("|", 5), ("^", 0o52), ("+", 1000), ("_", 2)])
        e = ("bin", op, ("sym", names[i + 1]), ("num", k))
        vals[i] = X.binop(op, vals[i + 1], k)
        defs.append((i, e))
    stmts = [{"k": "assign", "name": names[i], "e": e} for i, e in defs]   # reverse order: deepest first
    if order == "forward":
        stmts = stmts[::-1]
    elif order == "random":
        rnd.shuffle(stmts)
    v = vals[0]
    a0 = ("sym", names[0])
    if use == "imm":
        body = [{"k": "insn", "mn": "mov", "ops": [("imm", ("bin", "&", a0, ("num", 0o77777))), ("reg", 0)]}]
        want = struct.pack("<HH", 0o012700, v & 0o77777)
    elif use == "index":
        body = [{"k": "insn", "mn": "clr", "ops": [("idx", 1, ("bin", "&", a0, ("num", 0o777)))]}]
        want = struct.pack("<HH", 0o005061, v & 0o777)
    elif use == "branch":
        d = (v % 40) * 2
        body = [{"k": "insn", "mn": "br", "ops": [("tgt", ("bin", "+", ("dot",), ("bin", "*", ("bin", "%", a0, ("num", 40)), ("num", 2))))]},
                {"k": "blk", "d": "blkb", "e": ("num", 0o200)}]
        want = struct.pack("<H", 0o400 | ((d - 2) // 2) & 0xFF) + b"\0" * 0o200
    elif use == "blkb":
        body = [{"k": "blk", "d": "blkb", "e": ("bin", "%", a0, ("num", 16))}, {"k": "data", "d": "byte", "es": [("num", 1)]}]
        want = b"\0" * (v % 16) + b"\1"
    elif use == "repeat":
        body = [{"k": "repeat", "e": ("bin", "%", a0, ("num", 5)), "body": [{"k": "insn", "mn": "nop", "ops": []}]}, {"k": "insn", "mn": "halt", "ops": []}]
        want = struct.pack("<H", 0o240) * (v % 5) + b"\0\0"
    elif use == "string":
        body = [{"k": "str", "d": "ascii", "chunks": [("s", "a", '"'), ("n", ("bin", "%", a0, ("num", 256)))]}]
        want = b"a" + bytes([v % 256])
    else:
        body = [{"k": "insn", "mn": "clr", "ops": [("raw", "%<" + render.expr(("bin", "%", a0, ("num", 8))) + ">")]}]
        want = struct.pack("<H", 0o005000 | v % 8)
    where = seed % 3
    if where == 0:
        all_ = stmts + body
    elif where == 1:
        all_ = body + stmts
    else:
        all_ = stmts[:len(stmts) // 2] + body + stmts[len(stmts) // 2:]
    return all_, want


def run_shard(spec, ctx):
    part = spec["part"]
    if part == "chains":
        import itertools
        for depth, kind in ((300, "add"), (30, "nonlinear"), (3, "nonlinear"), (12, "add"), (4, "dag"), (9, "dag"), (25, "dag"), (250, "neg"), (7, "neg")):
            for order in ("forward", "reverse", "random"):
                for use in ("imm", "index", "branch", "blkb", "repeat", "string", "reg"):
                    for sd in range(6 if kind == "dag" else 3):
                        case = {"kind": "chain", "depth": depth, "ops": kind, "order": order, "use": use, "seed": sd}
                        ctx.case(repr(case), True, [f"chain-{kind}-{depth}", f"order-{order}", f"use-{use}"],
                                 sample=case if (depth, order, use, sd) in ((30, "random", "reg", 0), (300, "forward", "imm", 1)) else None)
                        for sig, msg in replay(case):
                            ctx.fail(sig, msg, case)
        # products of two values that are both still pending where they are used, in every order of the definitions
        for lines, want in ((["\t.word (qa + 1) * qb", "qa = qc + 2", "qb = qc + 3", "qc = 4"], struct.pack("<H", 49)),
                            (["\t.word qb * (qa + 1), (qa - 1) * (qb + qa)", "qa = qc + 2", "qb = qc + 3", "qc = 4"], struct.pack("<HH", 49, 65)),
                            (["\tnop\ntbl:\t.word tbl * scale, scale * tbl", "scale = late + 1", "late = 2", "\tnop"], struct.pack("<HHHH", 0o240, 0o1002 * 3, 0o1002 * 3, 0o240))):
            for perm in itertools.permutations(range(len(lines))):
                if "tbl:" in lines[0] and perm.index(0) > perm.index(3):
                    continue      # keep 'tbl' at offset 2: the first nop stays in front
                text = "\n".join(lines[i] for i in perm) + "\n"
                case = oracle.expect_ok(oracle.single(text), want)
                ctx.case(text, True, ["pending-product"], sample=text if perm == (0, 1, 2, 3) and "qa" in text else None)
                for sig, msg in oracle.check_expect(case, prefix="product:"):
                    ctx.fail(sig, f"{text!r}: {msg}", case)
        # definitions nothing refers to, one of them faulty: whatever the order, the build fails with the same identifier
        for fault, ident in (("ratio = total / count", "arithmetic-error"), ("ratio = total % count", "arithmetic-error"), ("ratio = 1 << (count - 1)", "arithmetic-error"),
                             ("ratio = count + 19", "invalid-number"), ("ratio = total + nowhere", "undefined-symbol"), ("ratio = total + count", None)):
            lines = [fault, "count = 0", "total = 5", "\tnop", "spare = ratio + 1"]
            for perm in itertools.permutations(range(5)):
                text = "\n".join(lines[i] for i in perm) + "\n"
                case = oracle.expect_error(oracle.single(text), [ident]) if ident else oracle.expect_ok(oracle.single(text), b"\xa0\x00")
                ctx.case(text, True, ["unused-definition-" + (ident or "fine")], sample=text if perm == (4, 0, 3, 1, 2) and ident == "arithmetic-error" and "/" in fault else None)
                for sig, msg in oracle.check_expect(case, prefix="unused:"):
                    ctx.fail(sig + ":" + (ident or "fine"), f"{text!r}: {msg}", case)
        return
    if part == "practice":
        names = sorted(os.listdir(PRACTICE))[spec["i"]::spec["n"]]
        for name in names:
            src = os.path.join(PRACTICE, name, "code.mac")
            with open(src) as f:
                text = f.read()
            defs, bounds = movable_definitions(src, text)
            ctx.extra.setdefault("practice_movable_definitions", {})[name] = len(defs)
            base_out = driver.assemble([(src, text)], timeout=300)
            if base_out.kind != "ok":
                ctx.case(("practice-broken", name), True, ["practice-variant"])
                ctx.fail("practice:original-broken", f"{name}: the unmodified practice program gives {oracle.brief(base_out)}", {"kind": "practice", "name": name, "seed": 0})
                continue
            if not defs or not bounds:
                continue
            for v in range(spec["variants"]):
                sd = core.seed_for(ctx.seed, name, v)
                picks = []

                def choose(n, _state=[sd]):
                    _state[0] = (_state[0] * 6364136223846793005 + 1442695040888963407) & (2 ** 64 - 1)
                    picks.append(n)
                    return (_state[0] >> 33) % n
                new = practice_variant(text, defs, bounds, choose)
                if new == text:
                    continue
                out = driver.assemble([(src, new)], timeout=300)
                ctx.case((name, new), True, ["practice-variant"], sample=f"{name}: variant {v} ({len(defs)} movable definitions)" if v == 0 else None)
                if out.kind == "timeout":
                    ctx.exclude("inconclusive:timeout")
                    continue
                if not base_out.same_result(out) or out.kind in ("crash", "silent"):
                    case = {"kind": "practice", "name": name, "seed": sd}
                    ctx.fail("practice:order-dependent", f"{name}: original {oracle.brief(base_out)}; after moving definitions {oracle.brief(out)}", case)
        return

    def check(v):
        prog, moves = v
        variant, crossed = apply_moves(prog, moves)
        t1 = progcheck.texts_of(prog)
        t2 = progcheck.texts_of(variant)
        key = repr(sorted(t1.items())) + repr(sorted(t2.items()))
        same_text = t1 == t2
        fails = judge_pair(prog, variant)
        ctx.case(key, crossed > 0 and not same_text, [f"variant-{prog['meta']['variant']}", "crossed-use" if crossed else "no-use-crossed"]
                 + [f"mode-{m['mode']}" for m in moves.values()][:1],
                 sample={"original": progcheck.brief_texts(t1, 400), "variant": progcheck.brief_texts(t2, 400)} if ctx.evaluations % 70 == 2 or not ctx.samples else None, evaluations=2)
        if fails:
            return (fails[0][0], fails[0][1], {"kind": "pair", "a": progcheck.case_of(prog), "b": progcheck.case_of(variant)})
        return None

    core.hyp_search(ctx, case_st(), check, spec["examples"], "c03")


def replay(case):
    if case["kind"] == "chain":
        stmts, want = chain_case(case["depth"], case["ops"], case["order"], case["use"], case["seed"])
        text, _ = render.render_file(stmts)
        c = oracle.expect_ok(oracle.single(text), want)
        return [(f"chain:{s}:{case['use']}", f"depth {case['depth']} {case['ops']} {case['order']}: {m}") for s, m in oracle.check_expect(c)]
    if case["kind"] == "pair":
        return judge_pair(progcheck.prog_of(case["a"]), progcheck.prog_of(case["b"])) or []
    if case["kind"] == "practice":
        src = os.path.join(PRACTICE, case["name"], "code.mac")
        with open(src) as f:
            text = f.read()
        defs, bounds = movable_definitions(src, text)
        st_ = [case["seed"]]

        def choose(n):
            st_[0] = (st_[0] * 6364136223846793005 + 1442695040888963407) & (2 ** 64 - 1)
            return (st_[0] >> 33) % n
        new = practice_variant(text, defs, bounds, choose)
        a = driver.assemble([(src, text)], timeout=300)
        b = driver.assemble([(src, new)], timeout=300)
        if not a.same_result(b):
            return [("practice:order-dependent", f"{case['name']}: {oracle.brief(a)} vs {oracle.brief(b)}")]
        return []
    return oracle.replay_generic(case)
