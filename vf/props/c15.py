"""C15 - Radix-50 packing (.rad50 and ^R)."""
import itertools
import struct

from hypothesis import strategies as st

from .. import core, driver, oracle
from ..ref import codecs

ID = "C15"
LEVEL = "exploration"
EXHAUSTIVE = True
RULE = ("exhaustive: all 40^3 character triples through '.rad50 /ccc/' in upper and lower case, all 1-3 character "
        "non-blank strings through '^R' in upper and lower case, every <n> code -1..64 in each of the three positions; every code point "
        "U+0000..U+1FFFF outside the alphabet (surrogates, '\"' and '\\' excluded) in the middle of a .rad50 string (must be refused as "
        "invalid-character) and of a ^R literal (must end the literal or be refused, never be packed); "
        "random: strings of 0-12 characters (alphabet and foreign characters) split into quoted and <n> chunks. "
        "Every case is non-trivial; distinct = distinct source line.")
ASSUMPTIONS = ["RADIX-50 alphabet is DEC's: blank, A-Z, $, ., % (code 29), 0-9",
               "words are cut from the image at 2-byte boundaries, little endian"]

ALPHA = codecs.RAD50
BATCH = 500


def shards(tier):
    specs = []
    n = 16
    for i in range(n):
        specs.append({"part": "dir", "lo": 64000 * i // n, "hi": 64000 * (i + 1) // n})
    for i in range(n):
        specs.append({"part": "caret", "i": i, "n": n})
    specs.append({"part": "codes"})
    for i in range(n):
        specs.append({"part": "foreign", "i": i, "n": n})
    k = 8
    per = (1000 if tier == "quick" else 30000) // k
    for i in range(k):
        specs.append({"part": "random", "i": i, "examples": per})
    return specs


def triple(idx):
    return ALPHA[idx // 1600] + ALPHA[(idx // 40) % 40] + ALPHA[idx % 40]


def run_lines(ctx, lines, expected_words, label):
    """lines: source lines, each independent and expected to emit expected_words[i] (list of ints)."""
    text = "\n".join(lines) + "\n"
    out = driver.assemble([("/vf/r50.mac", text)])
    want = b"".join(codecs.words_le(w) for w in expected_words)
    ok = out.kind == "ok" and out.code == want
    if ok:
        # second oracle: unpack by the standard algorithm
        return
    # isolate: each line on its own
    found = 0
    for line, words in zip(lines, expected_words):
        case = oracle.expect_ok(oracle.single(line + "\n"), codecs.words_le(words))
        for sig, msg in oracle.check_expect(case, prefix=f"{label}:"):
            ctx.fail(sig, f"{line!r}: {msg}", case)
            found += 1
    if not found:
        # batch fails but no single line does: interaction between lines
        case = oracle.expect_ok(oracle.single(text), want)
        ctx.fail(f"{label}:batch-only", "batch of independent lines differs from the sum of its lines", case)


def unpack_check(text3, words):
    """R4 direction 2: unpacking the expected words returns the upper-cased padded input"""
    s = "".join(codecs.rad50_unpack(w) for w in words)
    padded = text3.upper()
    padded += " " * (-len(padded) % 3)
    assert s == padded, (s, padded)


def run_shard(spec, ctx):
    part = spec["part"]
    if part == "dir":
        for case_fold in ("upper", "lower"):
            idxs = list(range(spec["lo"], spec["hi"]))
            for b in range(0, len(idxs), BATCH):
                chunk = idxs[b:b + BATCH]
                lines, words = [], []
                for idx in chunk:
                    t = triple(idx)
                    src = t if case_fold == "upper" else t.lower()
                    if case_fold == "lower" and src == t:
                        continue  # no letters: same line as the upper-case run
                    w = [idx]  # (c1*40+c2)*40+c3 by construction of idx
                    assert w == codecs.rad50_pack(t)
                    unpack_check(src, w)
                    lines.append(f".rad50 /{src}/")
                    words.append(w)
                    ctx.case(lines[-1], True, [f"dir-{case_fold}"], sample=lines[-1] if idx % 9973 == 0 else None)
                if lines:
                    run_lines(ctx, lines, words, "dir")
    elif part == "caret":
        nonblank = ALPHA[1:]
        strings = [a for a in nonblank]
        strings += [a + b for a in nonblank for b in nonblank]
        strings += [a + b + c for a in nonblank for b in nonblank for c in nonblank]
        mine = strings[spec["i"]::spec["n"]]
        for case_fold in ("upper", "lower"):
            for b in range(0, len(mine), BATCH):
                lines, words = [], []
                for s in mine[b:b + BATCH]:
                    src = s if case_fold == "upper" else s.lower()
                    if case_fold == "lower" and src == s:
                        continue
                    w = codecs.rad50_pack(s)
                    unpack_check(src, w)
                    lines.append(f".word ^R{src}")
                    words.append(w)
                    ctx.case(lines[-1], True, [f"caret-{case_fold}-len{len(s)}"],
                             sample=lines[-1] if len(lines) == 7 and b == 0 else None)
                if lines:
                    run_lines(ctx, lines, words, "caret")
    elif part == "codes":
        # every <n> code in each position; the three documented must-fail classes
        for n in range(-1, 65):
            for posn in range(3):
                chunks = ["/A/", "/B/", "/C/"]
                chunks[posn] = f"<{n}.>"
                line = ".rad50 " + " ".join(chunks)
                ctx.case(line, True, ["code-ok" if 0 <= n < 40 else "code-reject"], sample=line if n in (-1, 39, 40) and posn == 1 else None)
                if 0 <= n < 40:
                    codes = [1, 2, 3]
                    codes[posn] = n
                    case = oracle.expect_ok(oracle.single(line + "\n"), codecs.words_le(codecs.rad50_pack_codes(codes)))
                else:
                    case = oracle.expect_error(oracle.single(line + "\n"), ["value-out-of-bounds"])
                for sig, msg in oracle.check_expect(case, prefix="codes:"):
                    ctx.fail(sig, f"{line!r}: {msg}", case)
                if not 0 <= n < 40:
                    # a refusal stays a refusal whatever follows it (here: a statement that only draws a warning)
                    case = oracle.expect_error(oracle.single(line + "\n\t.word\n\t.list\n"), ["value-out-of-bounds"])
                    for sig, msg in oracle.check_expect(case, prefix="codes-then-warning:"):
                        ctx.fail(sig, f"{line!r} followed by a warning-only statement: {msg}", case)
        # the <n> code computed from '.' inside a .repeat: every copy packs its own value
        for text, words in (("tab:\t.repeat 6 { .rad50 /f/<<.-tab>/2+36> }\n", [codecs.rad50_pack("F" + str(i))[0] for i in range(6)]),
                            ("tab:\t.repeat 5 { .word ^RAB0+<<.-tab>/2> }\n", [codecs.rad50_pack("AB" + str(i))[0] for i in range(5)])):
            ctx.case(text, True, ["code-from-dot-in-repeat"], sample=text)
            case = oracle.expect_ok(oracle.single(text), codecs.words_le(words))
            for sig, msg in oracle.check_expect(case, prefix="repeat-codes:"):
                ctx.fail(sig, f"{text!r}: {msg}", case)
        for line, ident in [(".word ^R", "invalid-string"), (".word ^RABCD", "invalid-string"),
                            (".word ^RABCDE", "invalid-string"), (".word ^Rabcd", "invalid-string")]:
            ctx.case(line, True, ["caret-reject"], sample=line)
            case = oracle.expect_error(oracle.single(line + "\n"), [ident])
            for sig, msg in oracle.check_expect(case, prefix="caret-len:"):
                ctx.fail(sig, f"{line!r}: {msg}", case)
    elif part == "foreign":
        # every code point outside the alphabet (BMP and the supplementary planes up to U+1FFFF, surrogates excluded) in the middle
        # of a .rad50 string and of a ^R literal: never packed
        cps = [cp for cp in range(0x20000) if not 0xD800 <= cp <= 0xDFFF and chr(cp).upper() not in codecs.RAD50_INDEX or (cp > 0x7F and not 0xD800 <= cp <= 0xDFFF)]
        cps = [cp for cp in cps if chr(cp) not in '"\\'][spec["i"]::spec["n"]]
        a_word = codecs.words_le(codecs.rad50_pack("A"))
        for b in range(0, len(cps), 256):
            chunk = cps[b:b + 256]
            for form in ("dir", "caret"):
                lines = [(f'\t.rad50 "A{chr(cp)}Z"' if form == "dir" else f"\t.word ^RA{chr(cp)}Z") for cp in chunk]
                # raw line breaks inside the tested text would shift the line numbering: those code points go one by one
                solo = [i for i, cp in enumerate(chunk) if chr(cp) in "\n\r\x0b\x0c\x1c\x1d\x1e\x85\u2028\u2029"]
                batch = [i for i in range(len(chunk)) if i not in solo]
                text = "\n".join(lines[i] for i in batch) + "\n\t.word\n"      # ends with a statement that only draws a warning
                out = driver.assemble([("/vf/r50f.mac", text)])
                suspects = list(solo)
                if out.kind in ("crash", "timeout", "silent", "ok-with-errors") or (form == "dir" and out.kind == "ok" and batch):
                    suspects = list(range(len(chunk)))
                else:
                    starts = [0]
                    for i in batch:
                        starts.append(starts[-1] + len(lines[i]) + 1)
                    flagged = set()
                    import bisect
                    for sev, ident, spans in out.reports:
                        if sev == "warning" or not spans or (form == "dir" and ident != "invalid-character"):
                            continue
                        flagged.add(bisect.bisect_right(starts, spans[0][1]) - 1)
                    suspects += [i for k, i in enumerate(batch) if k not in flagged]
                for i, cp in enumerate(chunk):
                    ctx.case((form, cp), True, [f"foreign-{form}", "foreign-bmp" if cp < 0x10000 else "foreign-astral"] + (["foreign-folds-into-alphabet"] if any(
                        t and all(c in codecs.RAD50_INDEX for c in t) for t in (chr(cp).upper(), chr(cp).lower().upper(), chr(cp).casefold().upper())) else []),
                        sample=lines[i].strip() if cp in (0x131, 0x17F, 0x212A, 0xFB06, 0xE9, 0x21) and form == "dir" or cp in (0x212A, 0x3B) and form == "caret" else None)
                for i in suspects:
                    line = lines[i]
                    if form == "dir":
                        case = oracle.expect_error(oracle.single(line + "\n\t.word\n"), ["invalid-character"])
                        for sig, msg in oracle.check_expect(case, prefix="foreign-dir:"):
                            ctx.fail(sig, f"{line!r} (U+{chunk[i]:04X}): {msg}", case)
                    else:
                        o = driver.assemble([("/vf/r50f.mac", line + "\n")])
                        case = {"kind": "caret-foreign", "cp": chunk[i]}
                        if o.kind in ("crash", "timeout", "silent", "ok-with-errors"):
                            ctx.fail(f"foreign-caret:{o.kind}" + (f":{o.exc[0]}@{o.exc[1]}" if o.exc else ""), f"{line!r} (U+{chunk[i]:04X}): {o.kind} {o.exc}", case)
                        elif o.kind == "ok" and o.code[:2] != a_word:
                            ctx.fail("foreign-caret:packed", f"{line!r} (U+{chunk[i]:04X}): accepted, first word {o.code[:2].hex()} is not the packing of 'A' alone", case)
    elif part == "random":
        foreign = "!#&*()-_=+[]{}:;,?@^~|`éя¤"
        ch = st.one_of(st.sampled_from(ALPHA), st.sampled_from(ALPHA), st.sampled_from([c.lower() for c in ALPHA[1:27]]),
                       st.sampled_from(ALPHA), st.sampled_from(foreign))
        item = st.one_of(ch, ch, ch, st.integers(-1, 64))
        strat = st.tuples(st.lists(item, min_size=0, max_size=12), st.lists(st.booleans(), min_size=13, max_size=13),
                          st.sampled_from(["/", '"', "'"]))

        def check(v):
            items, cuts, quote = v
            # build chunks: consecutive characters form a quoted chunk unless cut
            chunks, cur = [], ""
            bad_char = bad_code = False
            codes = []
            for i, it in enumerate(items):
                if isinstance(it, int):
                    if cur:
                        chunks.append(quote + cur + quote)
                        cur = ""
                    chunks.append(f"<{it}.>")
                    if 0 <= it < 40:
                        codes.append(it)
                    else:
                        bad_code = True
                else:
                    if it.upper() in codecs.RAD50_INDEX:
                        codes.append(codecs.RAD50_INDEX[it.upper()])
                    else:
                        bad_char = True
                    cur += it
                    if cuts[i]:
                        chunks.append(quote + cur + quote)
                        cur = ""
            if cur:
                chunks.append(quote + cur + quote)
            if not chunks:
                chunks = [quote + quote]
            seps = [" ", "\t", "", " \t "]
            line = ".rad50 " + "".join(c + (seps[(len(c) + i) % len(seps)] if i + 1 < len(chunks) else "") for i, c in enumerate(chunks))
            labels = ["random-" + ("reject" if bad_char or bad_code else "ok"), f"len{min(len(items), 12) // 4 * 4}+"]
            ctx.case(line, True, labels, sample=line)
            v0 = oracle.single(line + "\n")
            if bad_char or bad_code:
                ids = (["invalid-character"] if bad_char else []) + (["value-out-of-bounds"] if bad_code else [])
                case = oracle.expect_error(v0, ids)
            else:
                words = codecs.rad50_pack_codes(codes)
                text = "".join(codecs.RAD50[c] for c in codes)
                unpack_check(text, words)
                case = oracle.expect_ok(v0, codecs.words_le(words))
            res = oracle.check_expect(case, prefix="random:")
            if res:
                return (res[0][0], f"{line!r}: {res[0][1]}", case)
            return None

        core.hyp_search(ctx, strat, check, spec["examples"], "c15-random")


def replay(case):
    if case["kind"] == "caret-foreign":
        line = f"\t.word ^RA{chr(case['cp'])}Z"
        o = driver.assemble([("/vf/r50f.mac", line + "\n")])
        if o.kind in ("crash", "timeout", "silent", "ok-with-errors"):
            return [(f"foreign-caret:{o.kind}" + (f":{o.exc[0]}@{o.exc[1]}" if o.exc else ""), f"{line!r}: {o.kind} {o.exc}")]
        if o.kind == "ok" and o.code[:2] != codecs.words_le(codecs.rad50_pack("A")):
            return [("foreign-caret:packed", f"{line!r}: accepted, first word {o.code[:2].hex()}")]
        return []
    return oracle.replay_generic(case)
