"""C02 - addresses the program sees equal where its bytes land."""
import os
import struct

from hypothesis import strategies as st

from .. import core, driver, gen, model, oracle, progcheck, render

ID = "C02"
LEVEL = "exploration"
RULE = ("Hypothesis programs over every size-bearing statement kind (instructions with 0-2 extension words, .byte/.word/.dword lists, "
        "implicit word lists, .ascii/.asciz/.rad50, .blkb/.blkw, .even/.odd/.align, '. =' skips, nested .repeat, insert_file, .include "
        "trees up to depth 3, 1-3 linked files), counts spelled through constants defined before or after use, labels everywhere, link "
        "base default / .link (leading or late) / leading '. =' with even and (byte-only programs) odd values. Oracles: (1) reference "
        "assembler R3: base, image, every symbol value in Compiler.symbols; (2) model-free trace invariant through the PDPY11_VERIF "
        "hook: for every statement image[addr-base : +len(chunk)] == chunk and the leaf statements tile the image exactly; (3) the 21 "
        "practice programs under the same trace invariant and against their recorded out.bin; (4) the trace invariant on every error-free "
        "survivor of the C08 generators (mutated G texts, mutated corpus windows), which needs no model. Non-trivial: >= 1 statement whose size "
        "is unknown when first met (late constant, .repeat, alignment, skip) and >= 1 label after it; distinct = distinct program text.")
ASSUMPTIONS = ["vf/model.py reference assembler (lazy evaluation with cycle detection; programs it cannot decide are skipped and counted)",
               "the hook records exactly what compile_block appends (add-only, guarded by PDPY11_VERIF=1)"]

os.environ["PDPY11_VERIF"] = "1"   # before pdpy11 is imported by the driver
PRACTICE = os.path.join(core.REPO, "tests", "practice")


def shards(tier):
    specs = [{"part": "practice", "i": i, "n": 4} for i in range(4)]
    k = 16
    per = (2400 if tier == "quick" else 60000) // k
    for i in range(k):
        specs.append({"part": "random", "i": i, "examples": per, "variant": ["plain", "files", "includes", "bytes"][i % 4]})
    # model-free: mutated G texts and mutated corpus windows (the C08 generators) that still assemble must satisfy the trace invariant
    nsurv = 600 if tier == "quick" else 20000
    for i in range(4):
        specs.append({"part": "survivors", "i": i, "examples": nsurv // 4, "source": "G" if i % 2 == 0 else "corpus"})
    return specs


def trace_invariant(out):
    """-> None or message.  Model-free: uses only what pdpy11 itself recorded."""
    comp, trace = out.trace
    if trace is None:
        raise core.HarnessError("trace hook is not active (PDPY11_VERIF)")
    wait = driver.pd().deferred.wait
    base, image = out.base, out.code
    leaves = []
    comps = []
    for insn, addr, chunk, _blk in trace:
        try:
            # everything the image is made of has been evaluated by now; a statement whose chunk still has to be computed (and
            # possibly complains while doing so, outside any report scope) never made it into the address bookkeeping
            sink = []
            with driver.pd().reports.handle_reports(lambda *a_: sink.append(a_[1])):
                a = wait(addr)
                b = wait(chunk)
        except Exception as ex:  # noqa
            return f"statement {str(insn)[:60]!r}: its address or bytes could not be evaluated after the assembly had succeeded: {type(ex).__name__}: {str(ex)[:100]}"
        if not isinstance(b, (bytes, bytearray)):
            return f"chunk of {insn!r} is {type(b).__name__}"
        off = a - base
        name = getattr(getattr(insn, "name", None), "name", "")
        composite = isinstance(name, str) and name.lower().lstrip(".") in ("repeat", "include")
        if off < 0 or image[off:off + len(b)] != b:
            return (f"statement {str(insn)[:60]!r} was given address {a:o} (offset {off}) but the image holds "
                    f"{image[off:off + len(b)][:8].hex()} there, the statement produced {bytes(b[:8]).hex()} (len {len(b)})")
        (comps if composite else leaves).append((off, len(b), str(insn)[:40]))
    pos = 0
    for off, n, what in sorted((l for l in leaves if l[1]), key=lambda t: t[0]):
        if off != pos:
            return f"leaf statements do not tile the image: {'gap' if off > pos else 'overlap'} at offset {pos} before {what!r} at {off}"
        pos = off + n
    if pos != len(image):
        return f"statement sizes sum to {pos} but the image has {len(image)} bytes"
    # the address a loader will use: the .bin container's header carries exactly the base the labels were computed from
    blob = driver.pd().formats.file_formats["bin"](base, image)
    if len(blob) < 4 or struct.unpack("<HH", blob[:4]) != (base & 0xFFFF, len(image) & 0xFFFF) or blob[4:] != image:
        return f"the .bin container of base {base:o} / {len(image)} bytes starts with {blob[:4].hex()} and carries {len(blob) - 4} bytes"
    return None


def is_nontrivial(prog):
    """a late-sized statement followed by a label"""
    for path, stmts in prog["files"].items():
        late = False
        for s in stmts:
            if s["k"] in ("repeat", "align", "even", "odd", "skip", "include", "insert") or (s["k"] == "blk" and s["e"][0] == "sym"):
                late = True
            if s["k"] == "label" and late:
                return True
    return False


def check_program(prog, ctx=None):
    """-> list of (sig, msg)"""
    r = model.assemble(prog)
    texts = progcheck.texts_of(prog)
    if r.kind == "skip":
        return None, r, texts
    out, root = progcheck.run_pd(prog, texts, want_symbols=True, trace=True)
    res = progcheck.compare(r, out, texts, check_symbols=True, root=root)
    fails = []
    if res:
        fails.append(res)
    if out.kind == "ok":
        msg = trace_invariant(out)
        if msg:
            fails.append(("trace-invariant", msg + "\n" + progcheck.brief_texts(texts)))
        # labels: the byte at a label's address is the byte the model placed after it
        if r.kind == "ok" and not res:
            for path, name, v in r.labels:
                if not (r.base <= v <= r.base + len(r.image)):
                    fails.append(("label-outside-image", f"label {name} = {v:o} outside [{r.base:o}, {r.base + len(r.image):o}]"))
    return fails, r, texts


def run_shard(spec, ctx):
    if spec["part"] == "practice":
        names = sorted(os.listdir(PRACTICE))[spec["i"]::spec["n"]]
        for name in names:
            case = {"kind": "practice", "name": name}
            ctx.case(("practice", name), True, ["practice"], sample=f"tests/practice/{name}/code.mac")
            for sig, msg in replay(case):
                ctx.fail(sig, msg, case)
        return
    if spec["part"] == "survivors":
        from . import c08
        strat = c08.g_case() if spec["source"] == "G" else c08.corpus_case()

        def check_survivor(case):
            files = [(f"/vf/t{i}.mac", t) for i, t in enumerate(case["texts"])]
            out = driver.assemble(files, charset=case.get("charset", "bk"), timeout=10, trace=True)
            text = "\n".join(case["texts"])
            if out.kind == "timeout":
                raise core.Inconclusive("time budget")
            ok = out.kind == "ok"
            ctx.case(text, ok and len(out.code) > 4, ["survivor-" + spec["source"], "survivor-ok" if ok else "survivor-" + out.kind],
                     sample=text[:300] if ok and ctx.evaluations % 97 == 5 else None)
            if ok:
                msg = trace_invariant(out)
                if msg:
                    return ("survivor:trace-invariant", msg + "\n--- text\n" + text[:1500], case)
            return None
        core.hyp_search(ctx, strat, check_survivor, spec["examples"], "c02-survivors")
        return
    variant = spec["variant"]
    opts = {"plain": dict(max_files=1, skip=True, base_forms=["none", "link", "dot", "link-late"]),
            "files": dict(max_files=3, skip=True),
            "includes": dict(max_files=2, includes=True, inserts=True, skip=True),
            "bytes": dict(max_files=2, byte_only=True, base_forms=["link", "dot", "none"])}[variant]

    def check(prog):
        fails, r, texts = check_program(prog)
        key = "\n".join(texts[p] for p in sorted(texts))
        if fails is None:
            ctx.exclude("reference-cannot-decide:" + (r.why or "")[:40])
            ctx.evaluations += 1
            return None
        labels = [f"variant-{variant}", f"model-{r.kind}", f"files-{len(prog['mains'])}", f"base-{prog['meta']['base_form']}"]
        if len(prog["files"]) > len(prog["mains"]):
            labels.append("has-include")
        if prog.get("blobs"):
            labels.append("has-insert")
        if prog["meta"]["base"] is not None and prog["meta"]["base"] % 2:
            labels.append("odd-base")
        ctx.case(key, r.kind == "ok" and is_nontrivial(prog), labels, sample=key[:700] if ctx.evaluations % 53 == 9 else None)
        if fails:
            return (fails[0][0], fails[0][1], progcheck.case_of(prog))
        return None

    core.hyp_search(ctx, gen.program_st(dyn_regs=True, **opts), check, spec["examples"], "c02-" + variant)


def replay(case):
    if case["kind"] == "practice":
        src = os.path.join(PRACTICE, case["name"], "code.mac")
        with open(src) as f:
            text = f.read()
        out = driver.assemble([(src, text)], timeout=300, trace=True)
        if out.kind != "ok":
            return [("practice:" + out.kind, f"{case['name']}: {out.kind} {sorted(set(out.error_ids()))} {out.exc}")]
        with open(os.path.join(PRACTICE, case["name"], "out.bin"), "rb") as f:
            want = f.read()
        fails = []
        if struct.pack("<HH", out.base, len(out.code)) + out.code != want:
            fails.append(("practice:out.bin", f"{case['name']}: image differs from the recorded out.bin"))
        msg = trace_invariant(out)
        if msg:
            fails.append(("practice:trace-invariant", f"{case['name']}: {msg}"))
        return fails
    if case["kind"] == "prog":
        fails, r, texts = check_program(progcheck.prog_of(case))
        return fails or []
    if case["kind"] == "texts":
        files = [(f"/vf/t{i}.mac", t) for i, t in enumerate(case["texts"])]
        out = driver.assemble(files, charset=case.get("charset", "bk"), timeout=60, trace=True)
        if out.kind == "ok":
            msg = trace_invariant(out)
            if msg:
                return [("survivor:trace-invariant", msg)]
        return []
    return oracle.replay_generic(case)
