"""C12 - the link base is what the source says, or an error."""
from hypothesis import strategies as st

from .. import core, gen, model, oracle, progcheck

ID = "C12"
LEVEL = "exploration"
RULE = ("Hypothesis programs of 1-3 linked files with labels everywhere and a link expression K + sum k_i*(L_i - L_j) spelled directly, "
        "through difference symbols, through alias symbols (p = L), with >>0, <<1 ... >>1 and /2*2 wrappers, as '.link e' at any "
        "top-level position of any linked file or as a leading '. = e'; a '. = . + k' gap behind the directive of a cancelling base; helper symbols shadowing constants of the same name exported "
        "by another file; also no directive (default 1000), two directives (must be "
        "address-conflict) and genuinely self-dependent bases with a non-zero net coefficient (must be recursive-definition); after a "
        "leading directive, '. = X' skips of every size 0..64 forward (exact zero fill, later labels shifted) and 1..64 backward (must "
        "be value-out-of-bounds), spelled .+k, label+k, through a symbol or as an absolute number. Oracle: reference assembler R3 with "
        "affine tracking of the base. Non-trivial: the expression mentions >= 1 label difference or the program has a skip != 0; "
        "distinct = distinct program text.")
ASSUMPTIONS = ["vf/model.py: a base whose net coefficient on itself is zero has the arithmetic value of the expression",
               "size-changing alignment directives are not placed between labels a base expression depends on (their size needs the base)"]

NAMES_OK = gen.names("lab", 1)


@st.composite
def c12_program(draw):
    nfiles = draw(st.integers(1, 3))
    files, mains, labels = {}, [], []
    for f in range(nfiles):
        tag = "abc"[f]
        labs = gen.names(f"m{tag}", draw(st.integers(1, 4)))
        n = draw(st.integers(1, 7))
        at = {}
        for lab in labs:
            at.setdefault(draw(st.integers(0, n)), []).append(lab)
        body = []
        for i in range(n + 1):
            for lab in at.get(i, []):
                body.append({"k": "label", "name": lab, "export": nfiles > 1 or draw(st.booleans())})
            if i == n:
                break
            k = draw(st.integers(0, 5))
            if k == 0:
                body.append({"k": "insn", "mn": "nop", "ops": []})
            elif k == 1:
                body.append({"k": "insn", "mn": "mov", "ops": [("imm", ("sym", draw(st.sampled_from(labs)))), ("reg", draw(st.integers(0, 5)))]})
            elif k == 2:
                body.append({"k": "data", "d": "word", "es": [("sym", draw(st.sampled_from(labs))), ("dot",)]})
            elif k == 3:
                body.append({"k": "blk", "d": "blkw", "e": ("num", draw(st.integers(0, 9)))})
            elif k == 4:
                body.append({"k": "str", "d": "ascii", "chunks": [("s", draw(st.sampled_from(["ab", "abcd", "", "xyzw12"])), '"')]})
            else:
                body.append({"k": "insn", "mn": "clr", "ops": [("rel", ("sym", draw(st.sampled_from(labs))))]})
        path = f"g{tag}.mac"
        files[path] = body
        mains.append(path)
        labels += labs
    kind = draw(st.sampled_from(["cancel", "cancel", "cancel", "const", "none", "two", "self", "skips", "skips"]))
    K = draw(st.sampled_from([0o2000, 0o1000, 0o40000, 0o100, 0o100000, 0o600, 0o157000, 0, 0o10, 0o200000, 0o177770]))
    meta = {"kind": kind, "K": K, "diffs": 0, "skips": []}
    # the file that carries the directive: any linked file for '.link' (the base is a property of the whole program), the first
    # one for a leading '. =' and for the skip programs
    linkfile = mains[0] if kind in ("skips", "none") else draw(st.sampled_from(mains + [mains[0]]))
    first = files[linkfile]
    defs = []

    def label():
        return ("sym", draw(st.sampled_from(labels)))

    def diff_term():
        """k*(L_a - L_b) in one of the spellings; net coefficient of the base is zero"""
        a, b = label(), label()
        meta["diffs"] += 1
        shape = draw(st.sampled_from(["direct", "symbol", "alias", "shr0", "shl-shr", "div", "scaled", "split"]))
        d = ("bin", "-", a, b)
        k = draw(st.sampled_from([1, 1, 2, 3, -1, -2, 5]))
        if shape == "symbol":
            name = f"dd{len(defs)}"
            defs.append({"k": "assign", "name": name, "e": d})
            d = ("sym", name)
        elif shape == "alias":
            pa, pb = f"pa{len(defs)}", f"pb{len(defs)}"
            defs.append({"k": "assign", "name": pa, "e": a})
            defs.append({"k": "assign", "name": pb, "e": b})
            d = ("bin", "-", ("sym", pa), ("sym", pb))
        elif shape == "shr0":
            d = ("bin", ">>", d, ("num", 0))
        elif shape == "shl-shr":
            d = ("bin", ">>", ("bin", "<<", d, ("num", 1)), ("num", 1))
        elif shape == "div":
            d = ("bin", "*", ("bin", "/", d, ("num", 2)), ("num", 2))   # label distances are even
        elif shape == "split":
            # k*a - k*b written without a bracket
            if k < 0:
                k = -k
            ka = ("bin", "*", ("num", k), a) if k != 1 else a
            kb = ("bin", "*", ("num", k), b) if k != 1 else b
            return ("+", ka), ("-", kb)
        meta.setdefault("shapes", []).append(shape)
        if k == 1:
            return ("+", d),
        if k == -1:
            return ("-", d),
        return (("+" if k > 0 else "-"), ("bin", "*", ("num", abs(k)), d)),

    def build_expr(terms):
        e = ("num", K)
        for sign, t in terms:
            e = ("bin", sign, e, t)
        return e

    if kind in ("cancel", "two"):
        terms = []
        for _ in range(draw(st.integers(1, 3))):
            terms += list(diff_term())
        e = build_expr(terms)
    elif kind == "self":
        terms = []
        if draw(st.booleans()):
            terms += list(diff_term())
        a = label()
        c = draw(st.sampled_from([1, 2, -1, 3]))
        terms.append(("+" if c > 0 else "-", a if abs(c) == 1 else ("bin", "*", ("num", abs(c)), a)))
        e = build_expr(terms)
    else:
        e = ("num", K)
    form = draw(st.sampled_from(["link", "link", "dot"])) if linkfile == mains[0] else "link"
    if kind == "none":
        pass
    elif kind == "skips" or form == "dot":
        first.insert(0, {"k": "link", "e": e, "form": form})
    else:
        # '.link' anywhere at the top level of the first file
        first.insert(draw(st.integers(0, len(first))), {"k": "link", "e": e, "form": "link"})
    if kind == "cancel" and draw(st.integers(0, 2)) == 0:
        # a gap behind the directive (possibly between the labels the base expression mentions): its size does not depend on the base
        li = mains.index(linkfile)
        path = draw(st.sampled_from(mains[li:]))
        body = files[path]
        lo = 0
        if path == linkfile:
            lo = next(i for i, s_ in enumerate(body) if s_["k"] == "link") + 1
        k = 2 * draw(st.integers(0, 16))
        if draw(st.booleans()):
            body.insert(draw(st.integers(lo, len(body))), {"k": "skip", "e": ("bin", "+", ("dot",), ("num", k))})
        else:
            # a .repeat whose count is defined at the end of the file, with a body that mentions its own address
            cname = f"rc{path[1]}"
            body.insert(draw(st.integers(lo, len(body))), {"k": "repeat", "e": ("sym", cname), "body": [{"k": "data", "d": "word", "es": [("dot",)]}]})
            body.append({"k": "assign", "name": cname, "e": ("num", k // 8)})
        meta["gap"] = k
    if kind == "two":
        pos = draw(st.integers(0, len(first)))
        first.insert(pos, {"k": "link", "e": ("num", draw(st.sampled_from([K, 0o3000]))), "form": "link"})
    if kind == "skips":
        # the base is set by the first statement; put skips anywhere after it (any file)
        for _ in range(draw(st.integers(1, 3))):
            path = draw(st.sampled_from(mains))
            body = files[path]
            lo = 1 if path == mains[0] else 0
            pos = draw(st.integers(lo, len(body)))
            fwd = draw(st.integers(0, 3)) != 0
            k = draw(st.integers(0, 64)) if fwd else -draw(st.integers(1, 64))
            spell = draw(st.sampled_from(["dot", "label", "symbol", "dot", "repeat-mod"]))
            here = f"hh{len(meta['skips'])}{path[1]}"
            if spell == "repeat-mod":
                # inside a .repeat body, the amount depending on '.' through an operator that is evaluated on numbers only: every
                # copy skips a different amount
                n = draw(st.integers(2, 4))
                op, m = draw(st.sampled_from([("%", 4), ("%", 3), ("/", 2), (">>", 1)]))
                amount = ("bin", op, ("bin", "-", ("dot",), ("sym", here)), ("num", m))
                new = [{"k": "label", "name": here}, {"k": "repeat", "e": ("num", n), "body": [{"k": "data", "d": "byte", "es": [("num", 1)]},
                                                                                          {"k": "skip", "e": ("bin", "+", ("dot",), amount)}]}, {"k": "even"}]
                body[pos:pos] = new
                meta["skips"].append(1)
                meta["repeat_skip"] = True
                continue
            if spell == "dot":
                tgt = ("bin", "+" if k >= 0 else "-", ("dot",), ("num", abs(k)))
                new = [{"k": "skip", "e": tgt}]
            elif spell == "label":
                tgt = ("bin", "+" if k >= 0 else "-", ("sym", here), ("num", abs(k)))
                new = [{"k": "label", "name": here}, {"k": "skip", "e": tgt}]
            else:
                sym = f"tt{len(meta['skips'])}{path[1]}"
                defs.append({"k": "assign", "name": sym, "e": ("bin", "+" if k >= 0 else "-", ("sym", here), ("num", abs(k))), "_file": path})
                new = [{"k": "label", "name": here}, {"k": "skip", "e": ("sym", sym)}]
            body[pos:pos] = new
            meta["skips"].append(k)
        if draw(st.integers(0, 3)) == 0:
            # an absolute number: the base is the constant K and the skip is the first thing after the directive
            k = draw(st.integers(0, 64))
            first.insert(1, {"k": "skip", "e": ("num", K + k)})
            meta["skips"].append(k)
    # definitions of helper symbols: anywhere at the top level of their file (first file unless stated)
    for d in defs:
        path = d.pop("_file", linkfile)
        body = files[path]
        body.insert(draw(st.integers(0, len(body))), d)
        if nfiles > 1 and draw(st.integers(0, 2)) == 0:
            # another file exports a constant of the same name: the file's own definition takes precedence, wherever it stands
            other = draw(st.sampled_from([m for m in mains if m != path]))
            files[other].insert(draw(st.integers(0, len(files[other]))), {"k": "assign", "name": d["name"], "e": ("num", draw(st.sampled_from([0, 2, 0o100, 0o1000]))), "export": True})
            meta["decoys"] = meta.get("decoys", 0) + 1
    return {"files": files, "blobs": {}, "mains": mains, "charset": "bk", "meta": meta}


def shards(tier):
    k = 16
    per = (8000 if tier == "quick" else 80000) // k
    return [{"part": "random", "i": i, "examples": per} for i in range(k)]


def judge(prog):
    r = model.assemble(prog)
    texts = progcheck.texts_of(prog)
    if r.kind == "skip":
        return None, r, texts
    out, root = progcheck.run_pd(prog, texts, want_symbols=True)
    res = progcheck.compare(r, out, texts, check_symbols=True, root=root)
    return ([res] if res else []), r, texts


def run_shard(spec, ctx):
    def check(prog):
        fails, r, texts = judge(prog)
        key = "\n".join(texts[p] for p in sorted(texts))
        meta = prog["meta"]
        if fails is None:
            ctx.exclude("reference-cannot-decide:" + (r.why or "")[:40])
            ctx.evaluations += 1
            return None
        nt = meta["diffs"] > 0 or any(meta["skips"])
        labels = [f"kind-{meta['kind']}", f"model-{r.kind}" + (":" + r.errors[0] if r.errors else ""), f"files-{len(prog['mains'])}"]
        labels += ["shape-" + s for s in meta.get("shapes", [])]
        if meta.get("gap") is not None:
            labels.append("cancel-with-gap")
        if meta.get("repeat_skip"):
            labels.append("skip-in-repeat")
        if meta.get("decoys"):
            labels.append("decoy-export")
        labels.append("directive-in-first-file" if not prog["mains"] or any(s["k"] == "link" for s in prog["files"][prog["mains"][0]]) or meta["kind"] == "none" else "directive-in-later-file")
        if meta["skips"]:
            labels.append("skip-forward" if all(k >= 0 for k in meta["skips"]) else "skip-backward")
        ctx.case(key, nt, labels, sample=key[:600] if ctx.evaluations % 47 == 5 else None)
        if fails:
            sig, msg = fails[0]
            return (f"{meta['kind']}:{sig}", msg, progcheck.case_of(prog, meta=meta))
        return None

    core.hyp_search(ctx, c12_program(), check, spec["examples"], "c12")


def replay(case):
    if case["kind"] == "prog":
        fails, r, texts = judge(progcheck.prog_of(case))
        kind = case.get("meta", {}).get("kind", "")
        return [(f"{kind}:{s}", m) for s, m in (fails or [])]
    return oracle.replay_generic(case)
