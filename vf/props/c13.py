"""C13 - output containers carry exactly the image, at the path the option or directive names."""
import os
import struct

from hypothesis import strategies as st

from .. import core, driver, oracle
from ..ref import codecs as C

ID = "C13"
LEVEL = "exploration"
RULE = ("(a) format level: images of 0-4096 bytes (Hypothesis binary plus constructed images whose byte sum is 0, 65534, 65535, 65536, "
        "k*65535 and just above a multiple of 65535), bases over 0..0o177777 with boundaries, 16-byte tape names, through the raw, bin, "
        "bk_wav and bk_turbo_wav writers; oracle: independent .bin reader, RIFF validation (by hand and with the wave module), two "
        "run-length demodulators (normal: pilot / marker / synchro + data pulse per bit, LSB first; turbo: documented constants) that "
        "must recover header (base, length, name), payload and the end-around-carry checksum. (b) path level: generated sources and "
        "selectors (-o with .bin/.BIN/other/no extension, relative, absolute, sub-directory, '-'; --implicit-bin with .mac/.MAC/no "
        "suffix; make_bin/make_raw/make_wav/make_turbo_wav/make_bk0010_rom without path, with relative or absolute path, with tape name; "
        "several directives; paths and tape names whose last character is a <code> or <forward symbol> chunk; absolute and relative paths that are "
        "not in normal form (.., ., //); sources in sub-directories or on stdin; cwd different from the source directory) through the CLI; "
        "oracle: the set of new files is exactly the predicted set and each holds the container of the image obtained from an "
        "in-process assembly of the same sources. Non-trivial: image >= 3 bytes with >= 2 distinct byte values or a special-sum image; "
        "path cases with >= 1 output; distinct = distinct (image, base, name) / (tree, argv).")
ASSUMPTIONS = ["normal-speed structure follows the BK-0010 monitor tape routine (pilot, 4T marker + 2T pulse, bit cell = T synchro pulse + "
               "T/2T data pulse, LSB first); the turbo format has no external standard and is demodulated by its documented constants",
               "a forked child calling main_cli observes exit status and files exactly as a shell would; 5% of the CLI cases are repeated "
               "through a real 'python -m pdpy11' subprocess and must agree"]


def special_images():
    imgs = [b"", b"\0" * 10, b"\xff" * 257, b"\xff" * 514, b"\xff" * 256 + b"\xfe", b"\xff" * 257 + b"\x01", b"\xff" * 514 + b"\x01",
            b"\xff" * 771, b"\xff" * 770 + b"\xfe\x01", bytes(range(256)) * 4, b"\x01", b"\x80" * 512, b"\xff" * 257 + b"\0" * 100]
    # sum exactly 65536 and 65534
    imgs.append(b"\xff" * 256 + b"\xff\x01")
    imgs.append(b"\xff" * 256 + b"\xfe")
    imgs.append(b"\xff" * 4096)
    return imgs


image_st = st.one_of(st.binary(min_size=0, max_size=64), st.binary(min_size=0, max_size=4096), st.sampled_from(special_images()),
                     st.tuples(st.sampled_from(special_images()), st.binary(max_size=3)).map(lambda t: t[0] + t[1]))
base_st = st.one_of(st.sampled_from([0, 1, 0o1000, 0o777, 0o100000, 0o177776, 0o177777, 0o77777]), st.integers(0, 0o177777))
name_st = st.binary(min_size=16, max_size=16)


def check_format(fmt, base, image, name):
    """-> list of (sig, msg)"""
    p = driver.pd()
    try:
        if fmt in ("raw", "bin"):
            blob = p.formats.file_formats[fmt](base, image)
        else:
            blob = p.formats.file_formats[fmt](base, image, name)
    except Exception as ex:  # noqa
        return [(f"format:{fmt}:crash:{type(ex).__name__}", f"{fmt} writer raised {type(ex).__name__}: {ex}")]
    return judge_blob(fmt, blob, base, image, name)


def judge_blob(fmt, blob, base, image, name):
    if fmt == "raw":
        if blob != image:
            return [("format:raw", "raw container differs from the image")]
        return []
    if fmt == "bin":
        try:
            b, n, payload = C.read_bin(blob)
        except ValueError as ex:
            return [("format:bin:header", str(ex))]
        if (b, n) != (base, len(image)):
            return [("format:bin:header", f"bin header says base {b:o} length {n}, expected {base:o} / {len(image)}")]
        if payload != image:
            return [("format:bin:payload", "bin payload differs from the image")]
        return []
    turbo = fmt == "bk_turbo_wav"
    try:
        rate, samples = C.riff_check(blob)
    except Exception as ex:  # noqa
        return [(f"format:{fmt}:riff", f"not a well-formed 8-bit mono RIFF/WAVE file: {ex}")]
    try:
        header, payload, cs, info = (C.demod_turbo if turbo else C.demod_normal)(samples)
    except C.DemodError as ex:
        return [(f"format:{fmt}:pulses", f"pulse train does not demodulate: {ex}")]
    hb, hn = struct.unpack("<HH", header[:4])
    fails = []
    if hb != base or hn != len(image):
        fails.append((f"format:{fmt}:header", f"tape header says base {hb:o} length {hn}, expected {base:o} / {len(image)}"))
    if header[4:] != name:
        fails.append((f"format:{fmt}:name", f"tape name {header[4:]!r}, expected {name!r}"))
    if payload != image:
        fails.append((f"format:{fmt}:payload", "demodulated payload differs from the image"))
    want = C.bk_checksum(image)
    if cs != want:
        fails.append((f"format:{fmt}:checksum", f"recorded checksum {cs:#06x}, end-around-carry sum of the image is {want:#06x} (byte sum {sum(image)})"))
    return fails


# ---------------------------------------------------------------------------
# path level

SRC = "\tmov #{v}, r0\n\t.word {w}\n"


@st.composite
def path_case(draw):
    v, w = draw(st.integers(0, 0o777)), draw(st.integers(0, 0o177777))
    body = SRC.format(v=f"{v:o}", w=f"{w:o}")
    srcdir = draw(st.sampled_from(["", "src/", "a/b/"]))
    srcname = draw(st.sampled_from(["prog.mac", "prog.MAC", "prog", "tape.Mac", "x.asm", "long.name.mac"]))
    use_stdin = draw(st.integers(0, 7)) == 0
    charset = draw(st.sampled_from(["bk", "bk", "koi8-r", "utf-8"]))
    directives = []
    nd = draw(st.integers(0, 3))
    for i in range(nd):
        d = draw(st.sampled_from(["make_bin", "make_raw", "make_wav", "make_turbo_wav", "make_bk0010_rom", "make_bin", "make_raw"]))
        pk = draw(st.sampled_from(["none", "rel", "rel-sub", "abs", "rel-up", "abs-dotdot", "abs-dot", "rel-dot"]))
        if pk != "none" or True:
            fname = draw(st.sampled_from(["out", "out.bin", "OUT.BIN", "res.raw", "t.wav", "T.WAV", "data.x", "тест.wav"])) + ("" if i == 0 else str(i))
        path = {"none": None, "rel": fname, "rel-sub": "outdir/" + fname, "abs": "{ROOT}/absdir/" + fname, "rel-up": "../" + fname,
                "abs-dotdot": "{ROOT}/absdir/../absdir/" + fname, "abs-dot": "{ROOT}/./absdir//" + fname, "rel-dot": "./outdir/../outdir/" + fname}[pk]
        if pk == "rel-up" and (srcdir == "" or use_stdin):
            path = fname      # '..' would leave the scratch directory
        tape = None
        if d in ("make_wav", "make_turbo_wav") and path is not None and draw(st.booleans()):
            tape = draw(st.sampled_from(["NAME", "", "sixteen chars ok!", "Игра", "a b", "x" * 16]))
        # how the last character of the path / tape name is written: as part of the string, as a <code> chunk, or as a <symbol>
        # chunk whose symbol is defined at the end of the file (the directive cannot be evaluated where it stands)
        directives.append([d, path, tape, draw(st.sampled_from(["plain", "plain", "chunk", "chunk-forward"]))])
    # with a pathless directive the default name is derived from the source: allow at most one of each extension class
    seen = set()
    clean = []
    for d, path, tape, spell in directives:
        key = (os.path.normpath(path) if path is not None else "default-" + {"make_bin": "bin", "make_bk0010_rom": "bin", "make_raw": "raw", "make_wav": "wav", "make_turbo_wav": "wav"}[d])
        if key in seen:
            continue
        seen.add(key)
        clean.append([d, path, tape, spell])
    o = draw(st.sampled_from([None, None, "o.bin", "o.BIN", "o.raw", "o", "outdir/o.bin", "{ROOT}/absdir/o.bin", "o.bin.txt", "-", "./o.Bin"]))
    implicit = draw(st.booleans())
    cwd = draw(st.sampled_from(["", "", "work/"]))
    quote = draw(st.sampled_from(['"', "'", "/"]))
    # the directives may stand in an included file of another directory: their paths are relative to *that* file
    via_include = not use_stdin and bool(clean) and draw(st.integers(0, 3)) == 0
    return {"kind": "path", "via_include": via_include, "body": body, "srcdir": srcdir, "srcname": srcname, "stdin": use_stdin, "charset": charset, "directives": clean,
            "o": o, "implicit": implicit, "cwd": cwd, "quote": quote}


def build_path_case(c, root):
    """-> (tree, argv, stdin, cwd_rel, expected outputs {relpath: (fmt, tape)} or None if stdout, expected failure?)"""
    lines = c["body"]
    q = c["quote"]
    tail = ""

    def spelled(text, qq, spell, tag):
        nonlocal tail
        if spell == "plain" or not text or ord(text[-1]) > 0x7F:
            return f"{qq}{text}{qq}"
        if spell == "chunk":
            return f"{qq}{text[:-1]}{qq}<{ord(text[-1]):o}>"
        tail += f"{tag} = {ord(text[-1]):o}\n"
        return f"{qq}{text[:-1]}{qq}<{tag}>"
    for i, (d, path, tape, *rest) in enumerate(c["directives"]):
        spell = rest[0] if rest else "plain"
        line = "\t" + d
        if path is not None:
            p = path.replace("{ROOT}", root)
            if q == "/" and "/" in p:
                qq = '"'
            else:
                qq = q
            line += " " + spelled(p, qq, spell, f"pch{i}")
            if tape is not None:
                line += ", " + spelled(tape, qq, spell, f"tch{i}")
        lines += line + "\n"
    lines += tail
    inc_text = None
    if c.get("via_include"):
        inc_text = lines[len(c["body"]):]
        lines = c["body"] + "\t.include \"lib/tail.mac\"\n"
    src_rel = c["srcdir"] + c["srcname"]
    tree = {"outdir/": None, "absdir/": None, "work/": None, "work/outdir/": None, "src/": None, "src/outdir/": None, "a/b/": None, "a/b/outdir/": None,
            "a/outdir/": None}
    stdin = b""
    if c["stdin"]:
        stdin = lines.encode("utf-8")
        src_arg = "-"
    else:
        tree[src_rel] = lines
        if inc_text is not None:
            tree[c["srcdir"] + "lib/tail.mac"] = inc_text
            tree[c["srcdir"] + "lib/outdir/"] = None
        src_arg = os.path.relpath(os.path.join(root, src_rel), os.path.join(root, c["cwd"])) if c["cwd"] else src_rel
    argv = [src_arg, "--charset", c["charset"]]
    if c["o"] is not None:
        argv += ["-o", c["o"].replace("{ROOT}", root)]
    if c["implicit"]:
        argv.append("--implicit-bin")
    return tree, argv, stdin


def predict_outputs(c, root):
    """-> dict abs path -> (format, tape name bytes or None), stdout format or None, expect_error ids"""
    cwd_abs = os.path.normpath(os.path.join(root, c["cwd"]))
    outs = {}
    errors = []
    if c["stdin"]:
        src_file = "stdin"          # pdpy11 names it so; directive paths are then relative to the cwd
        src_dir = ""
    else:
        src_file = os.path.join(root, c["srcdir"] + c["srcname"])
        if c.get("via_include"):
            src_file = os.path.join(root, c["srcdir"] + "lib/tail.mac")
        src_dir = os.path.dirname(src_file)
    charset = c["charset"]
    for d, path, tape, *_rest in c["directives"]:
        fmt = {"make_bin": "bin", "make_bk0010_rom": "bin", "make_raw": "raw", "make_wav": "bk_wav", "make_turbo_wav": "bk_turbo_wav"}[d]
        ext = {"bin": ".bin", "raw": "", "bk_wav": ".wav", "bk_turbo_wav": ".wav"}[fmt]
        if path is not None:
            p = path.replace("{ROOT}", root)
            wp = os.path.normpath(p) if os.path.isabs(p) else os.path.normpath(os.path.join(src_dir, p))
        else:
            wp = src_file
            if wp.lower().endswith(".mac"):
                wp = wp[:-4]
            wp += ext
        if not os.path.isabs(wp):
            wp = os.path.normpath(os.path.join(cwd_abs, wp))
        name = None
        if fmt in ("bk_wav", "bk_turbo_wav"):
            if tape is None:
                t = os.path.basename(wp)
                if t.lower().endswith(".wav"):
                    t = t[:-4]
            else:
                t = tape
            try:
                enc = t.encode(charset)
            except UnicodeEncodeError:
                enc = None
                errors.append("unencodable-tape-name")
            if enc is not None:
                if len(enc) > 16:
                    errors.append("too-long-string")
                name = enc[:16].ljust(16, b" ")
        outs[wp] = (fmt, name)
    stdout_fmt = None
    o = c["o"]
    if o is None and not c["directives"] and c["implicit"]:
        first = "stdin" if c["stdin"] else os.path.join(root, c["srcdir"] + c["srcname"])
        if first.lower().endswith(".mac"):
            first = first[:-4]
        first += ".bin"
        if not os.path.isabs(first):
            first = os.path.join(cwd_abs, first)
        outs[os.path.normpath(first)] = ("bin", None)
    if o is not None:
        o2 = o.replace("{ROOT}", root)
        base = o2.split("/")[-1]
        fmt = "bin" if base.lower().endswith(".bin") else "raw"
        if o2 == "-":
            stdout_fmt = fmt
        else:
            outs[os.path.normpath(os.path.join(cwd_abs, o2))] = (fmt, None)
    return outs, stdout_fmt, errors


def run_path_case(c, subprocess_mode=False):
    with driver.Scratch({}) as sc:
        root = sc.path
        tree, argv, stdin = build_path_case(c, root)
        for rel, content in tree.items():
            full = os.path.join(root, rel)
            if content is None:
                os.makedirs(full, exist_ok=True)
            else:
                os.makedirs(os.path.dirname(full), exist_ok=True)
                with open(full, "w", encoding="utf-8", newline="") as f:
                    f.write(content)
        outs, stdout_fmt, errors = predict_outputs(c, root)
        # the image: in-process assembly of the same source text (directives do not contribute bytes)
        text = stdin.decode("utf-8") if c["stdin"] else tree[c["srcdir"] + c["srcname"]]
        ref = driver.assemble([("stdin" if c["stdin"] else os.path.join(root, c["srcdir"] + c["srcname"]), text)], charset=c["charset"])
        res = driver.run_cli(sc, argv, stdin=stdin, cwd=os.path.join(root, c["cwd"]) if c["cwd"] else root, subprocess_mode=subprocess_mode)
        new = {os.path.join(root, k) for k in res.after if k not in res.before and not k.endswith("/")}
        changed = {os.path.join(root, k) for k in res.after if k in res.before and res.after[k] != res.before[k] and not k.endswith("/")}
        fails = []
        info = {"status": res.status, "new": sorted(os.path.relpath(p, root) for p in new)}
        if res.internal_error():
            return [("path:internal-error", f"argv {argv}: internal compiler error\n{res.stderr.decode('utf-8', 'replace')[-500:]}")], info
        if "unencodable-tape-name" in errors:
            # the tape name cannot be written in this charset: the property does not say what happens; only no crash is required
            return [], info
        if errors:
            if res.status == 0:
                fails.append(("path:accepted-bad-tape-name", f"argv {argv}: tape name longer than 16 bytes accepted"))
            return fails, info
        if ref.kind != "ok":
            return [("path:harness", f"reference assembly failed: {ref.kind} {ref.error_ids()}")], info
        if res.status != 0:
            return [("path:failed", f"argv {argv} cwd {c['cwd']!r}: exit status {res.status}\nstderr: {res.stderr.decode('utf-8', 'replace')[-400:]}\nsource:\n{text}")], info
        existing = {os.path.join(root, k) for k in res.before}
        want = set(outs) - existing
        want_changed = set(outs) & existing      # e.g. make_raw without a path on a source without '.mac': the default name is the source itself
        if new != want or changed != want_changed:
            fails.append(("path:file-set", f"argv {argv} cwd {c['cwd']!r}: new files {sorted(os.path.relpath(p, root) for p in new)}, expected "
                          f"{sorted(os.path.relpath(p, root) for p in want)}; modified {sorted(changed)}\nsource:\n{text}"))
            return fails, info
        for path, (fmt, name) in outs.items():
            with open(path, "rb") as f:
                blob = f.read()
            for sig, msg in judge_blob(fmt, blob, ref.base, ref.code, name):
                fails.append(("path:" + sig, f"{os.path.relpath(path, root)}: {msg}\nsource:\n{text}"))
        if stdout_fmt:
            for sig, msg in judge_blob(stdout_fmt, res.stdout, ref.base, ref.code, None):
                fails.append(("path:stdout:" + sig, f"stdout: {msg}"))
        elif res.stdout:
            fails.append(("path:stdout-noise", f"unexpected bytes on stdout: {res.stdout[:60]!r}"))
        return fails, info


def shards(tier):
    specs = [{"part": "special"}]
    top = 520 if tier == "quick" else 4096
    for i in range(16):
        specs.append({"part": "lengths", "i": i, "n": 16, "top": top})
    k = 8
    n_wav, n_bin, n_cli = (400, 3000, 3200) if tier == "quick" else (6000, 60000, 30000)
    for i in range(k):
        specs.append({"part": "wav", "i": i, "examples": n_wav // k})
    for i in range(4):
        specs.append({"part": "binraw", "i": i, "examples": n_bin // 4})
    for i in range(k):
        specs.append({"part": "cli", "i": i, "examples": n_cli // k})
    return specs


def nontrivial_image(img):
    return (len(img) >= 3 and len(set(img)) >= 2) or (sum(img) % 65535 in (0, 1, 65534) and len(img) > 0)


def run_shard(spec, ctx):
    part = spec["part"]
    if part == "special":
        for img in special_images():
            for fmt in ("raw", "bin", "bk_wav", "bk_turbo_wav"):
                for base in (0o1000, 0, 0o177777):
                    name = b"SPECIAL".ljust(16)
                    ctx.case((fmt, base, img), True, [f"special-{fmt}"], sample=f"{fmt}: {len(img)} bytes, byte sum {sum(img)}, base {base:o}" if base == 0o1000 and len(img) in (257, 514) else None)
                    case = {"kind": "format", "fmt": fmt, "base": base, "image": img.hex(), "name": name.hex()}
                    for sig, msg in check_format(fmt, base, img, name):
                        ctx.fail(sig, msg, case)
        return
    if part == "lengths":
        # every image length (a magic length cannot hide): deterministic content, all four writers
        for n in range(spec["i"], spec["top"] + 1, spec["n"]):
            img = bytes((i * 37 + n) & 0xFF for i in range(n))
            for fmt in ("raw", "bin", "bk_wav", "bk_turbo_wav"):
                base = (0o1000 + 2 * n) & 0xFFFF
                name = (b"LEN%d" % n).ljust(16)
                ctx.case((fmt, n), True, [f"every-length-{fmt}"])
                for sig, msg in check_format(fmt, base, img, name):
                    ctx.fail(sig, f"length {n}: {msg}", {"kind": "format", "fmt": fmt, "base": base, "image": img.hex(), "name": name.hex()})
        ctx.extra["every_length_up_to"] = spec["top"]
        return
    if part in ("wav", "binraw"):
        fmts = ["bk_wav", "bk_turbo_wav"] if part == "wav" else ["raw", "bin"]

        def check(v):
            fmt, base, img, name = v
            ctx.case((fmt, base, img, name), nontrivial_image(img), [f"fmt-{fmt}", "special-sum" if sum(img) % 65535 in (0, 1, 65534) and img else "ordinary-sum",
                                                                   f"len-{'0' if not img else '1-64' if len(img) <= 64 else '65+'}"],
                     sample=f"{fmt} base={base:o} len={len(img)} name={name!r}" if ctx.evaluations % 97 == 1 else None)
            fails = check_format(fmt, base, img, name)
            if fails:
                return (fails[0][0], fails[0][1], {"kind": "format", "fmt": fmt, "base": base, "image": img.hex(), "name": name.hex()})
            return None
        core.hyp_search(ctx, st.tuples(st.sampled_from(fmts), base_st, image_st, name_st), check, spec["examples"], "c13-" + part)
        return

    def check_cli(c):
        fails, info = run_path_case(c)
        nout = len(c["directives"]) + (1 if c["o"] else 0)
        labels = [f"directives-{len(c['directives'])}", "o-" + ("none" if c["o"] is None else "stdout" if c["o"] == "-" else "abs" if "{ROOT}" in c["o"] else "rel"),
                  "stdin" if c["stdin"] else "file", "cwd-sub" if c["cwd"] else "cwd-root", "implicit" if c["implicit"] else "no-implicit",
                  f"status-{info['status']}"] + [f"dir-{d[0]}-{'nopath' if d[1] is None else 'abs' if '{ROOT}' in d[1] else 'rel'}" for d in c["directives"]] + [f"path-spelled-{d[3]}" for d in c["directives"] if len(d) > 3 and d[1] is not None] \
                 + ["path-not-normal" for d in c["directives"] if d[1] is not None and ("/../" in d[1] or "/./" in d[1] or "//" in d[1])]
        ctx.case(repr(c), nout >= 1 or c["implicit"], labels, sample=c if ctx.evaluations % 61 == 2 else None)
        if not fails and ctx.evaluations % 20 == 0:
            # the same case through a real subprocess must agree with the forked run
            f2, info2 = run_path_case(c, subprocess_mode=True)
            ctx.classes["subprocess-crosscheck"] += 1
            if f2 or info2["status"] != info["status"] or info2["new"] != info["new"]:
                raise core.HarnessError(f"forked and subprocess CLI runs disagree on {c}: {info} vs {info2} {f2}")
        if fails:
            return (fails[0][0], fails[0][1], c)
        return None
    core.hyp_search(ctx, path_case(), check_cli, spec["examples"], "c13-cli")


def replay(case):
    if case["kind"] == "format":
        return check_format(case["fmt"], case["base"], bytes.fromhex(case["image"]), bytes.fromhex(case["name"]))
    if case["kind"] == "path":
        return run_path_case(case)[0]
    return oracle.replay_generic(case)
