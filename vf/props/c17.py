"""C17 - diagnostics point at the culprit."""
import os
import re

from hypothesis import strategies as st

from .. import core, driver, mutate, oracle, render

ID = "C17"
LEVEL = "fault_enumeration"
RULE = ("fault enumeration x Hypothesis placement: each of the catalogued fault kinds (vf/mutate.py: %d error/critical kinds and %d "
        "warning kinds, each with the position pdpy11 documents for that diagnostic) is planted into generated host programs at a drawn "
        "position (first / middle / last statement, inside .repeat, inside an included file, inside the 2nd or 3rd linked file) with "
        "drawn text before it (tabs, non-ASCII comments and strings, labels and tabs on the culprit's own line). Oracles: (1) universal, "
        "on every diagnostic of every run: both ends of every span name the same file, that file is an input whose text is the span's "
        "text, 0 <= start <= end <= len; (2) the first span of the first diagnostic with the planted identifier starts at the culprit: "
        "checked on the handler's offsets, on the 'file:line:col' rendering (line/column recomputed by the harness, a tab = 4 columns) "
        "and, for a sample, on the CLI's bare output and the graphical output's file header and gutter line. Non-trivial: culprit not "
        "in column 1 of line 1; distinct = (fault kind, placement class, prefix class).") % (len(mutate.FAULTS), len(mutate.WARNINGS))
ASSUMPTIONS = ["the anchor table of vf/mutate.py (token / mnemonic / left operand / stop position) was read off pdpy11's report call sites "
               "and calibrated on the repaired tree", "column = 1 + characters before the token on its line, a tab counting four"]

FILLER = ["\tmov #1, r0", "\tnop", "\t.word 1, 2, 3", "\tclr (r1)+", "; plain comment", "\t; комментарий с табом\tздесь", "\t.ascii /строка\tс табом/\n\t.even",
          "\tadd r1, r2\t; trailing\tcomment", "", "\t\t\tinc r3", "  \t mov r2, @#177716", "\tbr .+2",
          "; page\x0cbreak and\x0bvertical tab", "\tnop ; line\u2028separator \x85 nel \x1c fs \u2029", "\x0c", "\tclr r0\x0b"]


@st.composite
def c17_case(draw):
    fault = draw(st.sampled_from(mutate.FAULTS + mutate.FAULTS + mutate.WARNINGS))
    uid = draw(st.integers(1, 99))
    place = draw(st.sampled_from(["main", "main", "repeat", "included", "included-deep", "linked2", "linked3", "main-first", "main-last"]))
    if fault.where in ("top", "adjacent", "top-after-link", "utf8", "cross-file") and place == "repeat":
        place = "main"
    if fault.where == "top-after-link" and place not in ("main", "main-last"):  # a second .link needs the first one in the same main file
        place = "main"
    before = draw(st.lists(st.sampled_from(FILLER), min_size=0, max_size=6))
    after = draw(st.lists(st.sampled_from(FILLER), min_size=0, max_size=4))
    same_line = draw(st.sampled_from(["", "", "\t", "\t\t", "pl§:\t", "pl§:\t \t", "   "]))
    if fault.sev == "C":
        after = []          # parsing stops at a critical error; text behind it could only close an unterminated string
    if place == "repeat" and ":" in same_line:
        same_line = "\t"    # a label inside .repeat is an error of its own
    charset = "utf-8" if fault.where == "utf8" else "bk" if "unencodable" in fault.kind else draw(st.sampled_from(["bk", "bk", "utf-8"]))
    return {"kind": "c17", "fault": fault.kind, "uid": uid, "place": place, "before": before, "after": after, "same_line": same_line.replace("§", str(uid)),
            "charset": charset}


def build(c):
    """-> (tree, mains, culprit file, offset of the culprit in that file's text)"""
    f = mutate.BY_KIND[c["fault"]]
    pre, line, post = f.render(c["uid"])
    # labels cannot share a line prefix with a fault that itself starts at column 1 with a label/assignment
    body_line = line
    if c["same_line"] and line.startswith("\t") and f.where not in ("adjacent",):
        body_line = c["same_line"] + line.lstrip("\t")
    before = list(c["before"])
    after = list(c["after"])
    if c["place"] == "main-first":
        before = []
    if c["place"] == "main-last":
        after = []
    elsewhere = ""
    if f.where == "cross-file":
        elsewhere = "\n".join(pre) + "\n"     # goes into a file assembled before the culprit's file
        pre = []
    if f.where == "adjacent":
        core_lines = pre + [body_line] + post
        pre_far, post_far = [], []
    else:
        core_lines = [body_line]
        pre_far, post_far = pre, post
    if c["place"] == "repeat":
        core_lines = ["\t.repeat 1 {"] + core_lines + ["\t}"]
    text = "\n".join(pre_far + before + core_lines + after + post_far) + "\n"
    if f.where == "top-after-link":
        text = "\n".join(pre_far + before + core_lines + after + post_far) + "\n"
    clean, off = mutate.strip(text)
    tree, mains = {}, []
    if c["place"] in ("main", "repeat", "main-first", "main-last"):
        tree["main.mac"] = clean
        mains = ["main.mac"]
        culprit = "main.mac"
        if elsewhere:
            other = "aaa.mac" if c["uid"] % 2 else "zzz.mac"      # sorts before / after the culprit's name
            tree[other] = "\tnop\n" + elsewhere
            mains = [other, "main.mac"]
    elif c["place"] == "included":
        tree["main.mac"] = "\tnop\n" + elsewhere + "\t.include \"sub/inc.mac\"\n\tnop ; после включения\n"
        tree["sub/inc.mac"] = clean
        mains = ["main.mac"]
        culprit = "sub/inc.mac"
    elif c["place"] == "included-deep":
        # include depth 3, the innermost file in another directory, reached from the second linked file
        tree["first.mac"] = "\tnop\n" + elsewhere
        tree["main.mac"] = "\t.include \"sub/mid.mac\"\n\tnop\n"
        tree["sub/mid.mac"] = "\tnop ; середина\n\t.include \"deep/low.mac\"\n"
        tree["sub/deep/low.mac"] = "\tnop\n\t.include \"../../other/inc.mac\"\n\tnop\n"
        tree["other/inc.mac"] = clean
        mains = ["first.mac", "main.mac"]
        culprit = "other/inc.mac"
    else:
        n = 2 if c["place"] == "linked2" else 3
        for i in range(n - 1):
            tree[f"f{i}.mac"] = f"w{i}:\tnop\n\t.word w{i}\n" + (elsewhere if i == 0 else "")
            mains.append(f"f{i}.mac")
        tree["last.mac"] = clean
        mains.append("last.mac")
        culprit = "last.mac"
    return tree, mains, culprit, off


def universal(out, root, tree):
    """oracle (1) on every recorded diagnostic"""
    for sev, ident, spans in out.reports:
        for fn_s, pos_s, fn_e, pos_e, rep_s, rep_e, code in spans:
            if fn_s != fn_e:
                return ("universal:two-files", f"{ident}: span starts in {fn_s} and ends in {fn_e}")
            rel = os.path.relpath(fn_s, root)
            if rel not in tree:
                return ("universal:not-an-input", f"{ident}: names file {fn_s}, which is not one of the inputs {sorted(tree)}")
            if code != tree[rel]:
                return ("universal:wrong-text", f"{ident}: the span's text is not the content of {rel}")
            if not 0 <= pos_s <= pos_e <= len(code):
                return ("universal:range", f"{ident}: span {pos_s}..{pos_e} outside 0..{len(code)} or start after end")
    return None


ANSI = re.compile(r"\x1b\[[0-9;]*[A-Za-z]")


def judge(c, cli=False):
    f = mutate.BY_KIND[c["fault"]]
    tree, mains, culprit, off = build(c)
    with driver.Scratch(tree, fixed="c17") as sc:       # the same paths for every case of this process
        root = sc.path
        files = [(os.path.join(root, m), tree[m]) for m in mains]
        out = driver.assemble(files, charset=c["charset"])
        info = {"kind": out.kind}
        if out.kind in ("crash", "timeout", "silent", "ok-with-errors"):
            return [(f"{out.kind}:{out.exc[0]}@{out.exc[1]}" if out.exc else out.kind, f"{c['fault']}: {out.kind} {out.exc}\n{tree[culprit]}")], info
        u = universal(out, root, tree)
        if u:
            return [(u[0], u[1] + f"\n--- {culprit}\n{tree[culprit]}")], info
        want_fail = f.sev in ("E", "C")
        if want_fail != (out.kind == "error"):
            return [("outcome", f"{c['fault']} ({f.sev}) in {c['place']}: outcome {out.kind} {sorted(set(out.error_ids()))}\n--- {culprit}\n{tree[culprit]}")], info
        recs = [r for r in out.reports if r[1] == f.ident]
        if not recs:
            return [("not-reported", f"{c['fault']}: no '{f.ident}' diagnostic; got {[r[1] for r in out.reports]}\n--- {culprit}\n{tree[culprit]}")], info
        sev, ident, spans = recs[0]
        fn_s, pos_s, _, _, rep_s, _, _ = spans[0]
        text = tree[culprit]
        line, col = render.line_col(text, off)
        want_rep = f"{os.path.join(root, culprit)}:{line}:{col}"
        fails = []
        if os.path.relpath(fn_s, root) != culprit:
            fails.append(("wrong-file", f"{c['fault']} planted in {culprit}, reported in {os.path.relpath(fn_s, root)}"))
        elif pos_s != off:
            l2, c2 = render.line_col(text, pos_s)
            fails.append(("wrong-offset", f"{c['fault']} ({c['place']}): culprit at {line}:{col} (offset {off}), reported at {l2}:{c2} (offset {pos_s}) -> {text[pos_s:pos_s + 12]!r}\n--- {culprit}\n{text}"))
        elif rep_s != want_rep:
            fails.append(("wrong-line-column", f"{c['fault']}: offset is right but rendered as {rep_s.rsplit('/', 1)[-1]}, expected {want_rep.rsplit('/', 1)[-1]} (tab = 4 columns)\n--- {culprit}\n{text}"))
        if fails or not cli:
            return fails, info
        # CLI renderings
        argv = list(mains) + ["--charset", c["charset"], "-Wall"] + sum((["-W", w.warn_flag] for w in mutate.WARNINGS if w.warn_flag), [])
        res = driver.run_cli(sc, argv + ["--report-format=bare", "-o", "o.bin"])
        hits = re.findall(r"^(.+?):(\d+):(\d+): (Error|Warning): ", res.stdout.decode("utf-8", "replace"), flags=re.M)
        if (os.path.join(root, culprit), str(line), str(col)) not in [(h[0], h[1], h[2]) for h in hits]:
            fails.append(("cli-bare", f"{c['fault']}: bare output has no diagnostic at {culprit}:{line}:{col}; it has {[(os.path.basename(h[0]), h[1], h[2]) for h in hits][:6]}"))
        res = driver.run_cli(sc, argv + ["--report-format=graphical", "-o", "o2.bin"])
        plain = ANSI.sub("", res.stderr.decode("utf-8", "replace"))
        blocks = plain.split("\n\n")
        ok = False
        for b in blocks:
            if f"[-W{f.ident}]" not in b:
                continue
            head = b.strip().split("\n")[0]
            if os.path.join(root, culprit) not in head:
                continue
            lines = b.split("\n")
            for i, ln in enumerate(lines[:-1]):
                m = re.match(r"^\s*(\d+) │ ", ln)
                if m and "🡹" in lines[i + 1] and int(m.group(1)) == line:
                    ok = True
        if not ok:
            fails.append(("cli-graphical", f"{c['fault']}: graphical output has no [-W{f.ident}] block for {culprit} marking line {line}\n{plain[:600]}"))
        return fails, info


def shards(tier):
    specs = [{"part": "every-kind"}]
    k = 16
    per = (4000 if tier == "quick" else 60000) // k
    for i in range(k):
        specs.append({"part": "random", "i": i, "examples": per})
    return specs


def prefix_class(c):
    s = c["same_line"]
    return ("label+tab" if ":" in s else "tabs" if "\t" in s else "blanks" if s else "none") + ("/non-ascii-before" if any(ord(ch) > 127 for l in c["before"] for ch in l) else "")


def run_shard(spec, ctx):
    if spec["part"] == "every-kind":
        # every catalogued kind at every placement class, fixed surroundings, with the CLI renderings
        for f in mutate.FAULTS + mutate.WARNINGS:
            for place in ("main", "repeat", "included", "included-deep", "linked2", "linked3", "main-first", "main-last"):
                if f.where in ("top", "adjacent", "top-after-link", "utf8", "cross-file") and place == "repeat":
                    continue
                if f.where == "top-after-link" and place not in ("main", "main-last"):
                    continue
                c = {"kind": "c17", "fault": f.kind, "uid": 3, "place": place, "before": ["\t; комментарий\tс табом", "\tnop"], "after": ["\tnop"],
                     "same_line": "\t \t" if place != "main-first" else "", "charset": "utf-8" if f.where == "utf8" else "bk"}
                fails, info = judge(c, cli=place in ("main", "included", "linked2"))
                ctx.case((f.kind, place), True, [f"sev-{f.sev}", f"place-{place}", "enumerated"], sample=c if (f.kind, place) in (("division-by-zero", "included"), ("unterminated-string", "linked3")) else None)
                for sig, msg in fails:
                    ctx.fail(f"{sig}:{f.ident}", msg, c)
        ctx.extra["fault_kinds_error"] = len(mutate.FAULTS)
        ctx.extra["fault_kinds_warning"] = len(mutate.WARNINGS)
        return

    def check(c):
        cli = ctx.evaluations % 10 == 0
        fails, info = judge(c, cli=cli)
        tree, mains, culprit, off = build(c)
        line, col = render.line_col(tree[culprit], off)
        f = mutate.BY_KIND[c["fault"]]
        ctx.case((c["fault"], c["place"], prefix_class(c), tuple(c["before"])), not (line == 1 and col == 1),
                 [f"sev-{f.sev}", f"place-{c['place']}", "prefix-" + prefix_class(c)] + (["cli-rendering"] if cli else []),
                 sample=c if ctx.evaluations % 83 == 7 else None)
        if fails:
            return (f"{fails[0][0]}:{f.ident}", fails[0][1], c)
        return None
    core.hyp_search(ctx, c17_case(), check, spec["examples"], "c17")


def replay(case):
    if case["kind"] == "c17":
        fails, info = judge(case, cli=True)
        f = mutate.BY_KIND[case["fault"]]
        return [(f"{s}:{f.ident}", m) for s, m in fails]
    return oracle.replay_generic(case)
