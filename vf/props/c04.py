"""C04 - branches, SOB and PC-relative operands hit their target or are rejected."""
import struct

from hypothesis import strategies as st

from .. import core, driver, oracle, render
from ..ref import pdp11 as P

ID = "C04"
LEVEL = "exploration"
EXHAUSTIVE = True
RULE = ("exhaustive: each of the 17 branch mnemonics x every byte distance d in -300..+300 (d measured from .+2) and sob x d in "
        "-140..+6, each realised in up to seventeen shapes (label with filler, label+-k octal / decimal / hex, .+-k, .+-k inside .repeat, "
        "numeric local label with and without colon, local label +- k (the label-fixup reading), a local label on the other side of a .repeat block or "
        "of an included file with a local label of the same name, from the second inclusion of a file included twice, and from an included / second linked file to an exported label); accepted iff d even and within -256..254 (sob: -126..0), both directions asserted; accepted words "
        "are read by an independent decoder whose target must equal the source target. random: relative / relative-deferred operands "
        "in first or second position after 0 or 1 extension words, targets anywhere in 64 KiB (labels before/after with filler, "
        "label+-k, .+-k, local labels, bare addresses, wrap-around), link bases anywhere. placement: both parts also put the "
        "instruction into an included file and into a second linked file that start at a non-zero offset of the program, aiming at "
        "targets inside that file, at exported labels of the first file and at bare addresses. Non-trivial: |d| >= 2 or a preceding "
        "extension word; distinct = distinct source text.")
ASSUMPTIONS = ["vf/ref/pdp11.py decoder computes branch targets as addr+2+2*sext8(off), SOB as addr+2-2*off6, relative operands as "
               "address of the extension word + 2 + displacement (mod 2^16)",
               "a rejected branch must carry at least one of the identifiers branch-out-of-bounds / odd-branch"]

BRANCHES = [m for m in P.mnemonics() if P.signature(m) == ["B"]]
PROCS = 16


def shards(tier):
    specs = []
    for mn in BRANCHES:
        specs.append({"part": "branch", "mn": mn, "lo": -300, "hi": 300})
    specs.append({"part": "branch", "mn": "sob", "lo": -140, "hi": 6})
    k = 16
    per = (2000 if tier == "quick" else 40000) // k
    for i in range(k):
        specs.append({"part": "rel", "i": i, "examples": per})
    return specs


def branch_program(mn, d, shape, base=None):
    """-> (text, offset of the branch word in the image, address of the branch) or None if the shape cannot express d"""
    reg = "r3, " if mn == "sob" else ""
    B = 0o1000 if base is None else base
    head = f"\t.link {base:o}\n" if base is not None else ""
    k = d + 2  # distance from the instruction itself
    if shape in ("label", "local", "local-colon"):
        name = {"label": "tgt", "local": "7", "local-colon": "15"}[shape]
        ref = name + (":" if shape == "local-colon" else "")
        anchor = "anchor:\n" if shape != "label" else ""  # opens a local scope
        if d <= -2:
            filler = -d - 2
            text = f"{head}{anchor}{name}:\n\t.blkb {filler:o}\n\t{mn} {reg}{ref}\n"
            return text, filler, B + filler
        if d >= 0:
            text = f"{head}{anchor}\t{mn} {reg}{ref}\n\t.blkb {d:o}\n{name}:\n\tnop\n"
            return text, 0, B
        return None
    if shape in ("label-k", "label-kdec", "label-khex"):
        num = {"label-k": f"{abs(k):o}", "label-kdec": f"{abs(k)}.", "label-khex": f"0x{abs(k):x}"}[shape]
        sign = "+" if k >= 0 else "-"
        return f"{head}here:\n\t{mn} {reg}here{sign}{num}\n", 0, B
    if shape == "shadowed-export":
        # the first file exports 'tgt'; the second file has a label 'tgt' of its own behind the branch: the own label is meant
        inner = branch_program(mn, d, "label", None)
        if inner is None or d < 0:
            return None
        text, off, addr = inner
        return {"a.mac": f"{head}tgt::\tnop\n\tnop\n", "b.mac": text}, ["a.mac", "b.mac"], 4 + off, B + 4 + off
    if shape == "include-twice":
        # the same file included twice: the second copy's branch aims at the second copy's label
        inner = branch_program(mn, d, "label", None)
        if inner is None:
            return None
        text, off, addr = inner
        size = (off + 2) if d <= -2 else (2 + d + 2)
        pad = 4
        main = f"{head}\t.blkb {pad:o}\n\t.include \"unit.mac\"\n\t.include \"unit.mac\"\n"
        return {"main.mac": main, "unit.mac": text}, ["main.mac"], pad + size + off, B + pad + size + off
    if shape in ("local-over-repeat", "local-over-include"):
        # a numeric local label and its reference with a .repeat block / an included file (that has a local label of the same
        # name) between them: both are in the same scope of the enclosing file
        mid = "\t.repeat 2 { nop }\n" if shape == "local-over-repeat" else "\t.include \"own.mac\"\n"
        if d <= -6:
            filler = -d - 6
            text = f"{head}anchor:\n7:\t.blkb {filler:o}\n{mid}\t{mn} {reg}7\n"
            off = filler + 4
        elif d >= 4:
            text = f"{head}anchor:\t{mn} {reg}7\n{mid}\t.blkb {d - 4:o}\n7:\tnop\n"
            off = 0
        else:
            return None
        if shape == "local-over-include":
            return {"main.mac": text, "own.mac": "7:\tnop\n\tbr 7\n"}, ["main.mac"], off, B + off
        return text, off, B + off
    if shape in ("local-k", "local-kdec"):
        # 'br 1+k': the first number of a complex operand is read as a local label (with a label-fixup warning at the same place
        # where an out-of-reach error would be reported)
        kk = d + 4
        num = f"{abs(kk):o}" if shape == "local-k" else f"{abs(kk)}."
        sign = "+" if kk >= 0 else "-"
        return f"{head}anchor:\n1:\tnop\n\t{mn} {reg}1{sign}{num}\n", 2, B + 2
    if shape == "dot-repeat":
        num = f"{abs(k):o}"
        sign = "+" if k >= 0 else "-"
        return f"{head}\tnop\n\t.repeat 3 {{\n\t\t{mn} {reg}.{sign}{num}\n\t}}\n", 2, B + 2
    if shape in ("dot", "dot-dec"):
        num = f"{abs(k):o}" if shape == "dot" else f"^D{abs(k)}"
        sign = "+" if k >= 0 else "-"
        return f"{head}\tnop\n\t{mn} {reg}.{sign}{num}\n", 2, B + 2
    if shape in ("glob-include", "glob-second", "inner-include"):
        # the branch stands in a file that starts `pad` bytes into the program; its target is an exported label of the first file
        # (glob-*) or a label of its own file (inner-include)
        pad = 6 + 2 * (abs(d) % 5)
        if shape == "inner-include":
            inner = branch_program(mn, d, "label", None)
            if inner is None:
                return None
            text, off, addr = inner
            main = f"{head}\t.blkb {pad:o}\n\t.include \"unit.mac\"\n"
            return {"main.mac": main, "unit.mac": text}, ["main.mac"], pad + off, B + pad + off
        unit = f"\t{mn} {reg}glob\n\tnop\n"
        if d <= -2:
            filler = -d - 2
            first = f"{head}\t.blkb {pad:o}\nglob::\n\t.blkb {filler:o}\n"
            tail = ""
            off = pad + filler
        elif d >= 0:
            first = f"{head}\t.blkb {pad:o}\n"
            tail = f"\t.blkb {max(d - 2, 0):o}\nglob::\n\tnop\n" if d >= 2 else None
            off = pad
            if tail is None:
                return None
        else:
            return None
        if shape == "glob-include":
            return {"main.mac": first + "\t.include \"unit.mac\"\n" + tail, "unit.mac": unit}, ["main.mac"], off, B + off
        if tail:
            return {"a.mac": first, "b.mac": unit, "c.mac": tail}, ["a.mac", "b.mac", "c.mac"], off, B + off
        return {"a.mac": first, "b.mac": unit}, ["a.mac", "b.mac"], off, B + off
    raise ValueError(shape)


SHAPES = ["label", "local", "local-colon", "label-k", "label-kdec", "label-khex", "dot", "dot-dec", "dot-repeat", "glob-include", "glob-second", "inner-include", "local-k", "local-kdec", "include-twice", "local-over-repeat", "local-over-include", "shadowed-export"]


def check_branch(mn, d, shape, base=None):
    """-> (text, [(sig,msg)]) ; None text if shape not applicable"""
    built = branch_program(mn, d, shape, base)
    if built is None:
        return None, []
    if isinstance(built[0], dict):
        tree, mains, off, addr = built
        text = "".join(f";;; {n}\n{t}" for n, t in sorted(tree.items()))
    else:
        text, off, addr = built
        tree = None
    if mn == "sob":
        legal = d % 2 == 0 and -126 <= d <= 0
    else:
        legal = d % 2 == 0 and -256 <= d <= 254
    if tree is None:
        out = driver.assemble([("/vf/c04.mac", text)])
    else:
        out, _ = driver.assemble_tree(tree, mains)
    if out.kind in ("crash", "timeout", "silent", "ok-with-errors"):
        return text, [(f"{out.kind}:{out.exc[0]}@{out.exc[1]}" if out.exc else out.kind, f"{text!r}: {out.kind} {out.exc}")]
    if not legal:
        if out.kind == "ok":
            w = struct.unpack_from("<H", out.code, off)[0]
            return text, [("accepted", f"{mn} at distance {d} (shape {shape}) must be rejected but assembled to {w:06o}")]
        ids = set(out.error_ids())
        if not ids & {"branch-out-of-bounds", "odd-branch"}:
            return text, [("wrong-error", f"{mn} d={d}: rejected with {sorted(ids)} only")]
        return text, []
    if out.kind != "ok":
        return text, [("rejected", f"{mn} at distance {d} (shape {shape}) is within reach but was rejected: {sorted(set(out.error_ids()))}")]
    copies = 3 if shape == "dot-repeat" else 1
    if len(out.code) < off + 2 * copies:
        return text, [("short-image", f"{text!r}: image of {len(out.code)} bytes")]
    for i in range(copies):
        w = struct.unpack_from("<H", out.code, off + 2 * i)[0]
        a = addr + 2 * i
        try:
            name, ops, used = P.decode([w], a)
        except Exception as ex:  # noqa
            return text, [("undecodable", f"{mn} d={d}: emitted {w:06o}: {ex}")]
        want = (a + 2 + d) & 0xFFFF
        got = ops[-1][1]
        if name != P.canonical(mn, [])[0] or ops[-1][0] != "tgt":
            return text, [("wrong-opcode", f"{mn} d={d}: emitted {w:06o} decodes as {name} {ops}")]
        if got != want:
            return text, [("wrong-target", f"{mn} at {a:o} to {want:o} (d={d}, shape {shape}, copy {i}): displacement in {w:06o} reaches {got:o}")]
        if mn == "sob" and ops[0] != ("reg", 3):
            return text, [("wrong-register", f"sob r3 decodes as {ops}")]
    return text, []


# ---------------------------------------------------------------------------
# relative operands

ONE = ["clr", "tst", "jmp", "inc", "tstb", "negd", "ldfps", "call", "push"]
TWO = ["mov", "cmp", "add", "bisb", "sub"]
RG = ["jsr", "xor"]
GR = ["mul", "ash"]
FA = ["ldf", "cmpd", "addf"]
AF = ["stf", "stcfd"]

OTHER = st.sampled_from([("reg", 2), ("ind", 4), ("inc", 1), ("dec", 6), ("idx", 5, 0o1234), ("idxd", 0, 0o177776), ("imm", 0o42),
                         ("abs", 0o177560), ("reg", 7), ("idx", 7, 6)])


@st.composite
def rel_case(draw):
    kind = draw(st.sampled_from(["one", "two-first", "two-second", "two-both", "rg", "gr", "fa", "af"]))
    deferred = draw(st.booleans())
    base = draw(st.one_of(st.none(), st.sampled_from([0, 0o1000, 0o100000, 0o177000, 0o177770, 0o160000]),
                          st.integers(0, 0o77777).map(lambda x: 2 * x)))
    # target: ("num", T) bare address | ("before", filler, k) | ("after", filler, k) | ("dot", k) | ("local-before", filler) | ("local-after", filler)
    place = draw(st.sampled_from(["main", "main", "include", "second"]))
    tk = draw(st.sampled_from(["num", "before", "after", "dot", "local-before", "local-after", "num", "after", "before"] + (["glob", "glob", "num"] if place != "main" else [])))
    if tk == "num":
        tgt = ("num", draw(st.one_of(st.sampled_from([0, 2, 0o776, 0o1000, 0o1002, 0o1004, 0o100000, 0o177776, 0o177777, 0o77777]), st.integers(0, 0o177777))))
    elif tk == "dot":
        tgt = ("dot", draw(st.integers(-0o400, 0o400)))
    elif tk == "glob":
        tgt = ("glob", draw(st.integers(-64, 64)))
    elif tk.startswith("local"):
        tgt = (tk, draw(st.integers(0, 300)))
    else:
        tgt = (tk, draw(st.integers(0, 300)), draw(st.one_of(st.just(0), st.integers(-64, 64))))
    kdec = draw(st.booleans())
    other = draw(OTHER)
    mn = draw(st.sampled_from({"one": ONE, "two-first": TWO, "two-second": TWO, "two-both": TWO, "rg": RG, "gr": GR, "fa": FA, "af": AF}[kind]))
    pre = draw(st.integers(0, 3))  # instructions before
    rep = draw(st.sampled_from([1, 1, 2, 3]))
    c = {"rep": rep, "kind": "rel", "shape": kind, "mn": mn, "deferred": deferred, "base": base, "tgt": list(tgt), "kdec": kdec,
         "other": list(other), "pre": pre}
    if place != "main":
        c["place"] = place
        c["pad"] = 2 * draw(st.integers(1, 40))
    return c


def num(v, dec):
    return (f"{abs(v)}." if dec else f"{abs(v):o}")


def build_rel(c):
    """-> (text, base, insn_addr, [(position of rel operand: index, ext word address, target value)], total insn words, other operand)"""
    base = c["base"]
    B0 = 0o1000 if base is None else base
    place = c.get("place", "main")
    pad = c.get("pad", 0) if place != "main" else 0
    B = B0 + pad                       # where the file with the instruction starts
    lines = []
    if base is not None and place == "main":
        lines.append(f"\t.link {base:o}")
    tgt = c["tgt"]
    lines.append("scope:")
    addr = B
    target_val = None
    label_lines_after = []
    if tgt[0] in ("before", "local-before"):
        name = "tlab" if tgt[0] == "before" else "3"
        lines.append(f"{name}:")
        lines.append(f"\t.blkb {tgt[1]:o}")
        lab_addr = addr
        addr += tgt[1]
        if addr % 2:
            lines.append("\t.even")
            addr += 1
    for _ in range(c["pre"]):
        lines.append("\tnop")
        addr += 2
    insn_addr = addr
    other = tuple(c["other"])
    other_words = 1 if other[0] in ("idx", "idxd", "imm", "abs") else 0
    shape = c["shape"]
    mn = c["mn"]
    # operand order and which positions are relative
    if shape == "one":
        order = ["R"]
    elif shape == "two-first":
        order = ["R", "O"]
    elif shape == "two-second":
        order = ["O", "R"]
    elif shape == "two-both":
        order = ["R", "R"]
    elif shape == "rg":
        order = ["reg", "R"]
    elif shape == "gr":
        order = ["R", "reg"]
    elif shape == "fa":
        order = ["R", "ac"]
    else:
        order = ["ac", "R"]
    nwords = 1 + sum(1 if o == "R" else (other_words if o == "O" else 0) for o in order)
    insn_len = 2 * nwords
    rep = c.get("rep", 1)
    if tgt[0].startswith("local"):
        rep = 1  # a .repeat body is its own local-label scope
    after_addr = insn_addr + insn_len * rep
    if tgt[0] in ("after", "local-after"):
        name = "tlab" if tgt[0] == "after" else "3"
        lab_addr = after_addr + tgt[1]
        label_lines_after = [f"\t.blkb {tgt[1]:o}", f"{name}:", "\tnop"]
    if tgt[0] == "num":
        expr_text = f"{tgt[1]:o}"
        target_val = tgt[1]
    elif tgt[0] == "dot":
        k = tgt[1]
        expr_text = "." + ("+" if k >= 0 else "-") + num(k, c["kdec"])
        target_val = insn_addr + k  # first copy; copy i adds i * insn_len
    elif tgt[0] in ("local-before", "local-after"):
        expr_text = "3:"
        target_val = lab_addr
    elif tgt[0] == "glob":
        k = tgt[1]
        expr_text = "glob" + (("+" if k >= 0 else "-") + num(k, c["kdec"]) if k else "")
        target_val = B0 + 2 + k       # 'glob::' stands 2 bytes into the first file
    else:
        k = tgt[2]
        expr_text = "tlab" + (("+" if k >= 0 else "-") + num(k, c["kdec"]) if k else "")
        target_val = lab_addr + k
    rel_text = ("@" if c["deferred"] else "") + expr_text
    ops_text = []
    rels = []
    ext = 0
    model_ops = []
    for o in order:
        if o == "R":
            ops_text.append(rel_text)
            rels.append((len(ops_text) - 1, insn_addr + 2 + 2 * ext, target_val & 0xFFFF))
            model_ops.append(("reld" if c["deferred"] else "rel", target_val & 0xFFFF))
            ext += 1
        elif o == "O":
            ops_text.append(render.operand(_to_model(other)))
            model_ops.append(other)
            ext += other_words
        elif o == "reg":
            ops_text.append("r4")
            model_ops.append(("reg", 4))
        elif o == "ac":
            ops_text.append("ac1")
            model_ops.append(("ac", 1))
    if rep > 1:
        lines.append(f"\t.repeat {rep} {{")
        lines.append(f"\t\t{mn} " + ", ".join(ops_text))
        lines.append("\t}")
    else:
        lines.append(f"\t{mn} " + ", ".join(ops_text))
    lines += label_lines_after
    text = "\n".join(lines) + "\n"
    if place == "main":
        return text, B, insn_addr, rels, nwords, model_ops
    head = (f"\t.link {base:o}\n" if base is not None else "") + f"\tnop\nglob::\n\t.blkb {pad - 2:o}\n"
    if place == "include":
        tree = {"main.mac": head + "\t.include \"unit.mac\"\n\tnop\n", "unit.mac": text}
        mains = ["main.mac"]
    else:
        tree = {"a.mac": head, "b.mac": text}
        mains = ["a.mac", "b.mac"]
    return (tree, mains), B0, insn_addr, rels, nwords, model_ops


def _to_model(op):
    if op[0] in ("idx", "idxd"):
        return (op[0], op[1], ("num", op[2]))
    if op[0] in ("imm", "abs"):
        return (op[0], ("num", op[1]))
    return op


def check_rel(c):
    text, B, insn_addr, rels, nwords, model_ops = build_rel(c)
    if isinstance(text, tuple):
        tree, mains = text
        text = "".join(f";;; {n}\n{t}" for n, t in sorted(tree.items()))
        out, _ = driver.assemble_tree(tree, mains)
    else:
        out = driver.assemble([("/vf/c04r.mac", text)])
    if out.kind != "ok":
        sig = f"rel:{out.kind}" + (f":{out.exc[0]}@{out.exc[1]}" if out.exc else "")
        return text, [(sig, f"{text!r}: {out.kind} {sorted(set(out.error_ids()))} {out.exc}")]
    if out.base != B:
        return text, [("rel:base", f"base {out.base:o} != {B:o}")]
    rep = 1 if c["tgt"][0].startswith("local") else c.get("rep", 1)
    for copy in range(rep):
        a = insn_addr + copy * 2 * nwords
        shift = copy * 2 * nwords if c["tgt"][0] == "dot" else 0
        off = a - B
        if len(out.code) < off + 2 * nwords:
            return text, [("rel:short-image", f"{text!r}: image of {len(out.code)} bytes")]
        words = [struct.unpack_from("<H", out.code, off + 2 * i)[0] for i in range(nwords)]
        try:
            name, ops, used = P.decode(words, a)
        except Exception as ex:  # noqa
            return text, [("rel:undecodable", f"{text!r}: {[oct(w) for w in words]}: {ex}")]
        mops = [((o[0], (o[1] + shift) & 0xFFFF) if o[0] in ("rel", "reld") else o) for o in model_ops]
        want_name, want_ops = P.normalize(c["mn"], mops, a)
        if name != want_name or used != nwords:
            return text, [("rel:wrong-insn", f"{text!r}: decodes as {name} {ops} using {used} words")]
        for idx, ext_addr, tval in rels:
            tval = (tval + shift) & 0xFFFF
            got = ops_for(c, ops)[idx]
            if got[0] != ("reld" if c["deferred"] else "rel"):
                return text, [("rel:wrong-mode", f"{text!r}: operand {idx} decodes as {got}")]
            if got[1] != tval:
                return text, [("rel:wrong-target", f"{text!r}: copy {copy} operand {idx} reaches {got[1]:o}, source says {tval:o}")]
        if [tuple(o) for o in ops] != [tuple(o) for o in want_ops]:
            return text, [("rel:wrong-operands", f"{text!r}: {want_ops} decode as {ops}")]
    return text, []


def ops_for(c, ops):
    """decoded operands in *source* order (pseudo instructions push/call decode with an added operand)"""
    mn = c["mn"]
    if mn == "push":
        return [ops[0]]
    if mn == "call":
        return [ops[1]]
    return ops


def run_shard(spec, ctx):
    if spec["part"] == "branch":
        mn = spec["mn"]
        for d in range(spec["lo"], spec["hi"] + 1):
            for si, shape in enumerate(SHAPES):
                base = [None, 0o40000, None, 0, None, 0o157000, None, 0o2000, 0o1000, 0o3000, None, 0o60000, None, 0o4000, None, 0o2000, None, 0o1000][si] if d % 7 == 0 else None
                text, fails = check_branch(mn, d, shape, base)
                if text is None:
                    continue
                boundary = d in (-258, -257, -256, -255, -254, 252, 253, 254, 255, 256, 258, -128, -127, -126, -125, -124, -2, -1, 0, 1, 2)
                ctx.case(text, abs(d) >= 2, [f"shape-{shape}", "boundary" if boundary else "interior"],
                         sample=text if boundary and shape == SHAPES[(BRANCHES + ["sob"]).index(mn) * 5 % len(SHAPES)] and d in (-256, 254, 256, -126, 2) else None)
                case = {"kind": "branch", "mn": mn, "d": d, "shape": shape, "base": base}
                for sig, msg in fails:
                    ctx.fail(f"branch:{sig}:{'sob' if mn == 'sob' else 'bcc'}:{shape}", msg, case)
    else:
        def check(c):
            text, fails = check_rel(c)
            nt = c["shape"] != "one" or c["tgt"][0] != "num" or True
            ctx.case(text, nt, [f"pos-{c['shape']}", f"tgt-{c['tgt'][0]}", "deferred" if c["deferred"] else "direct",
                                f"repeat-{c.get('rep', 1)}", f"place-{c.get('place', 'main')}", "ext-before" if c["shape"] in ("two-second",) and tuple(c["other"])[0] in ("idx", "idxd", "imm", "abs") else "no-ext-before"],
                     sample=text if ctx.evaluations % 29 == 3 else None)
            if fails:
                return (fails[0][0], fails[0][1], c)
            return None
        core.hyp_search(ctx, rel_case(), check, spec["examples"], "c04-rel")


def replay(case):
    if case["kind"] == "branch":
        _, fails = check_branch(case["mn"], case["d"], case["shape"], case.get("base"))
        return [(f"branch:{s}:{'sob' if case['mn'] == 'sob' else 'bcc'}:{case['shape']}", m) for s, m in fails]
    if case["kind"] == "rel":
        return check_rel(case)[1]
    return oracle.replay_generic(case)
