"""C16 - structural directives preserve meaning (.repeat, linking, insert_file, .end, .once)."""
import copy

from hypothesis import strategies as st

from .. import core, driver, gen, model, oracle, progcheck, render

ID = "C16"
LEVEL = "exploration"
RULE = ("metamorphic pairs, image against image (and against the reference assembler): (1) '.repeat n { B }' vs B written n times, "
        "bodies of 1-6 statements with '.'-dependent operands, indexed operands with symbolic/compound offsets, the operators / % << >> "
        "on '.', branches to outside labels and to .+-k, nesting <= 3, n in 0..40 literal or defined later; (2) linking F1..Fk vs "
        "assembling their concatenation (disjoint names); (3) insert_file of 0-300 random bytes vs the same bytes as .byte data; "
        "(4) 'X .end Y' vs 'X' with arbitrary - also unparseable - text Y in main, linked and included files; (5) a file starting with "
        ".once included 1-3 times (under equivalent spellings of its path and through another included file) vs included once. Non-trivial: repeat pairs whose copies differ in bytes or whose body has an operand "
        "that pdpy11 regroups (hoists) or fixes up; all other pairs with >= 1 affected statement; distinct = distinct pair of texts.")
ASSUMPTIONS = ["outcome classes are compared as success / failure (+ bytes and base on success)",
               "concatenated files start with an ordinary label so that local-label scopes do not merge"]


def shards(tier):
    k = 16
    per = (3000 if tier == "quick" else 50000) // 2 // k
    return [{"part": "random", "i": i, "examples": per, "sub": ["repeat", "repeat", "link", "insert", "end", "once", "repeat", "end"][i % 8]} for i in range(k)]


# ---------------------------------------------------------------------------
# (1) repeat

@st.composite
def repeat_body_stmt(draw, nm, depth):
    k = draw(st.integers(0, 11))
    dot = ("dot",)
    sym = lambda: ("sym", draw(st.sampled_from(nm.consts)))
    if k == 0:
        # impure operators on '.'
        op = draw(st.sampled_from(["/", "%", "<<", ">>"]))
        return [{"k": "data", "d": "word", "es": [("bin", op, dot, ("num", draw(st.integers(1, 3))))]}]
    if k == 1:
        op = draw(st.sampled_from(["/", "%", "<<", ">>", "&", "_"]))
        return [{"k": "insn", "mn": "mov", "ops": [("imm", ("bin", op, ("bin", "+", dot, sym()), ("num", draw(st.integers(1, 4))))), ("reg", 1)]}]
    if k == 2:
        # indexed operand with compound symbolic offset: needs hoisting
        off = draw(st.sampled_from([("bin", "+", sym(), ("num", 2)), ("un", "-", sym()), ("bin", "-", sym(), ("num", 1)),
                                    ("bin", "+", ("bin", "*", sym(), ("num", 2)), ("num", 4)), ("bin", "+", dot, ("num", 2))]))
        form = draw(st.sampled_from(["idx", "idxd"]))
        return [{"k": "insn", "mn": draw(st.sampled_from(["clr", "inc", "tst"])), "ops": [(form, draw(st.integers(0, 6)), off)]}]
    if k == 3:
        off = ("bin", "+", sym(), ("num", 2))
        return [{"k": "insn", "mn": "mov", "ops": [("idx", 1, off), ("idxd", 2, ("un", "-", sym()))]}]
    if k == 4:
        d = draw(st.integers(-5, 5)) * 2
        e = dot if d == 0 else ("bin", "+" if d > 0 else "-", dot, ("num", abs(d)))
        return [{"k": "insn", "mn": draw(st.sampled_from(["br", "bne", "bcc"])), "ops": [("tgt", e)]}]
    if k == 5 and nm.labels:
        return [{"k": "insn", "mn": draw(st.sampled_from(["br", "beq"])), "ops": [("tgt", ("sym", draw(st.sampled_from(nm.labels))))]}]
    if k == 6:
        lab = ("sym", draw(st.sampled_from(nm.labels))) if nm.labels else dot
        return [{"k": "insn", "mn": "mov", "ops": [(draw(st.sampled_from(["rel", "reld", "abs", "imm"])), lab), ("reg", 0)]}]
    if k == 7:
        return [{"k": "data", "d": "word", "es": [dot, ("bin", "-", dot, sym())]}]
    if k == 8 and depth == 1 and draw(st.booleans()):
        # copies whose size depends on the parity of the address they land on
        return draw(st.sampled_from([
            [{"k": "data", "d": "byte", "es": [("num", 1)]}, {"k": "even"}, {"k": "data", "d": "byte", "es": [("num", 2)]}],
            [{"k": "even"}, {"k": "data", "d": "byte", "es": [("bin", "&", ("dot",), ("num", 0o377))]}],
            [{"k": "data", "d": "byte", "es": [("num", 3)]}, {"k": "odd"}],
            [{"k": "data", "d": "byte", "es": [("num", 5)]}],
        ]))
    if k == 8:
        if depth > 1:
            return [{"k": "data", "d": "byte", "es": [("num", draw(st.integers(0, 255))), ("num", 7)]}]
        return [{"k": "data", "d": "byte", "es": [("num", draw(st.integers(0, 255)))]}, {"k": "even"}]
    if k == 9 and depth < 3:
        body = []
        for _ in range(draw(st.integers(1, 3))):
            body += draw(repeat_body_stmt(nm, depth + 1))
        return [{"k": "repeat", "e": ("num", draw(st.integers(0, 3))), "body": body}]
    if k == 10:
        return [{"k": "insn", "mn": "sob", "ops": [("reg", 2), ("tgt", ("bin", "-", dot, ("num", 2 * draw(st.integers(0, 5)))))]}]
    return [draw(gen.insn_stmt(nm, (), True))]


@st.composite
def repeat_case(draw):
    consts = gen.names("rk", 3)
    labels = gen.names("rl", 2)
    nm = gen.Names(consts, labels, [], [])
    body = []
    for _ in range(draw(st.integers(1, 6))):
        body += draw(repeat_body_stmt(nm, 1))
    n = draw(st.one_of(st.integers(0, 5), st.integers(0, 5), st.integers(0, 40)))
    if has_padding(body):
        n = min(n, 4)   # the running time of pdpy11 doubles with every executed .even
    late = draw(st.booleans())
    count = ("sym", "rn0") if late else ("num", n)
    stmts = [{"k": "label", "name": labels[0]}, {"k": "insn", "mn": "nop", "ops": []}]
    stmts.append({"k": "repeat", "e": count, "body": body})
    stmts.append({"k": "even"})
    stmts += [{"k": "label", "name": labels[1]}, {"k": "insn", "mn": "nop", "ops": []}]
    defs = [{"k": "assign", "name": c, "e": ("num", draw(st.sampled_from([4, 0o10, 6, 0o100, 2])))} for c in consts]
    if late:
        defs.append({"k": "assign", "name": "rn0", "e": ("num", n)})
    for d in defs:
        stmts.insert(draw(st.sampled_from([0, len(stmts)])), d)
    base = draw(st.sampled_from([None, 0o2000, 0o40000]))
    if base is not None:
        stmts.insert(0, {"k": "link", "e": ("num", base)})
    prog = {"files": {"rep.mac": stmts}, "blobs": {}, "mains": ["rep.mac"], "charset": "bk"}
    return prog, unroll(prog), {"n": n, "late": late}


def unroll(prog):
    """every .repeat replaced by its body written out count times (counts: numbers or top-level numeric constants)"""
    consts = {}
    for stmts in prog["files"].values():
        for s in stmts:
            if s["k"] == "assign" and s["e"][0] == "num":
                consts[s["name"]] = s["e"][1]

    def count(e):
        return e[1] if e[0] == "num" else consts[e[1]]

    def expand(stmts):
        out = []
        for s in stmts:
            if s["k"] == "repeat":
                body = expand(s["body"])
                for _ in range(count(s["e"])):
                    out += copy.deepcopy(body)
            else:
                out.append(s)
        return out
    return dict(prog, files={p: expand(s) for p, s in prog["files"].items()})


# ---------------------------------------------------------------------------
# (2) link vs concatenation

@st.composite
def link_case(draw):
    # one program in four: a single file exports, and it does so through '.extern all' (literal concatenation of files is only
    # meaningful then: '.extern all' next to '::' of the same file is a duplicate export)
    exporter = draw(st.sampled_from([None, None, None, 0, 1, 2]))
    prog = draw(gen.program_st(max_files=3, decoys=False, const_addr=True, skip=True, base_forms=["none", "link", "dot", "link-late"], exporter=exporter))
    # every file starts with an ordinary label (local-label scopes must not merge)
    for i, path in enumerate(prog["mains"]):
        body = prog["files"][path]
        at = 1 if body and body[0]["k"] == "link" else 0
        body.insert(at, {"k": "label", "name": gen.names("sf" + "abc"[i], 1)[0]})
    extern_all = 0
    for fi, path in enumerate(prog["mains"]):
        if len(prog["mains"]) > 1 and exporter is not None and exporter % len(prog["mains"]) == fi:
            # this file exports through '.extern all' (placed before, between or after its definitions) instead of '::' / '=='
            body = [dict(s_, export=False) if s_.get("export") else s_ for s_ in prog["files"][path]]
            lo = 1 if body and body[0]["k"] == "link" else 0
            top = [i for i in range(lo, len(body) + 1)]
            body.insert(draw(st.sampled_from([lo, lo, len(body)] + top)), {"k": "extern", "names": "all"})
            prog["files"][path] = body
            extern_all += 1
    cat = []
    for path in prog["mains"]:
        cat += prog["files"][path]
    one = {"files": {"cat.mac": cat}, "blobs": {}, "mains": ["cat.mac"], "charset": "bk"}
    return prog, one, {"files": len(prog["mains"]), "extern_all": extern_all}


# ---------------------------------------------------------------------------
# (3) insert_file vs .byte

@st.composite
def insert_case(draw):
    prog = draw(gen.program_st(max_files=1, skip=True))
    body = prog["files"][prog["mains"][0]]
    blobs = {}
    # positions are chosen on the original body and applied from the back, so both variants get the pieces at the same places
    pts = gen.even_points(body)
    places = sorted((draw(st.sampled_from(pts)) for _ in range(draw(st.integers(1, 2)))), reverse=True)
    body2 = list(body)
    body = list(body)
    for i, pos in enumerate(places):
        data = draw(st.one_of(st.binary(min_size=0, max_size=8), st.binary(min_size=0, max_size=300)))
        pad = draw(st.booleans())
        path = f"bin/b{i}.dat"
        blobs[path] = data
        tail = [{"k": "even"}] if len(data) % 2 or pad else []
        body[pos:pos] = [{"k": "insert", "path": path}] + tail
        body2[pos:pos] = ([{"k": "data", "d": "byte", "es": [("num", b) for b in data]}] if data else []) + tail
    files_a = {prog["mains"][0]: body}
    files_b = {prog["mains"][0]: body2}
    samename = False
    if draw(st.integers(0, 2)) == 0:
        # an included file of another directory inserts a file of the same relative name (it is a different file)
        samename = True
        other = draw(st.binary(min_size=1, max_size=40))
        blobs["sub/bin/b0.dat"] = other
        tail = [{"k": "even"}] if len(other) % 2 else []
        files_a["sub/inc.mac"] = [{"k": "insert", "path": "bin/b0.dat"}] + tail
        files_b["sub/inc.mac"] = [{"k": "data", "d": "byte", "es": [("num", x) for x in other]}] + tail
        pos = draw(st.sampled_from(gen.even_points(body2)))
        # same statement index in both bodies only if computed per body: use the end of the file (even by construction)
        body.append({"k": "include", "path": "sub/inc.mac"})
        body2.append({"k": "include", "path": "sub/inc.mac"})
    a = dict(prog, files=files_a, blobs=blobs)
    b = dict(prog, files=files_b, blobs={})
    return a, b, {"bytes": sum(len(v) for v in blobs.values()), "samename": samename}


JUNK = ["this is not assembly at all ))) ((", "\tmov r0,\n\t\"unterminated", "label: .word 1, 2\n\t.error stop", "\t.include \"nowhere.mac\"", "%%% ^^^ <<<",
        "\t.end\n\t.end", "x = = 3", "\t.word 189", "}}}{{{", ""]


@st.composite
def end_case(draw):
    where = draw(st.sampled_from(["main", "linked", "included"]))
    if where == "included":
        prog = draw(gen.program_st(max_files=1, includes=True))
    else:
        prog = draw(gen.program_st(max_files=3 if where == "linked" else 1, skip=True))
    paths = sorted(prog["files"])
    if where == "included":
        cands = [p for p in paths if p not in prog["mains"]] or paths
    elif where == "linked":
        cands = prog["mains"]
    else:
        cands = prog["mains"][:1]
    a = dict(prog, files=dict(prog["files"]))
    b = dict(prog, files=dict(prog["files"]))
    hit = 0
    for path in draw(st.lists(st.sampled_from(cands), min_size=1, max_size=2, unique=True)):
        body = prog["files"][path]
        cut = draw(st.sampled_from(gen.even_points(body)))
        # definitions after the cut that are used before it would become undefined: both variants lose them alike
        spelled = draw(st.sampled_from([".end", ".END", ".End", "end"]))
        junk = draw(st.sampled_from(JUNK))
        keep_tail = draw(st.booleans())
        tail = body[cut:] if keep_tail else []
        a["files"][path] = body[:cut] + [{"k": "raw", "text": "\t" + spelled}] + tail + [{"k": "raw", "text": junk}]
        b["files"][path] = body[:cut]
        hit += 1
    return a, b, {"where": where, "hit": hit}


@st.composite
def once_case(draw):
    sub = draw(gen.program_st(max_files=1, max_stmts=5, base_forms=["none"]))
    inc_body = [{"k": "once"}] + sub["files"][sub["mains"][0]]
    m = draw(st.integers(1, 3))
    main = [{"k": "insn", "mn": "nop", "ops": []}]
    main_once = list(main)
    first = True
    extra = {}
    spellings = []
    for i in range(m):
        filler = [{"k": "data", "d": "word", "es": [("num", i)]}] * draw(st.integers(0, 2))
        # the same file under equivalent spellings of its path, and through another included file of its own directory
        sp = draw(st.sampled_from(["lib/once.mac", "lib/once.mac", "./lib/once.mac", "lib/../lib/once.mac", "lib/./once.mac", "lib//once.mac", "via", "via-up"]))
        spellings.append(sp)
        if sp.startswith("via"):
            extra[f"lib/{sp}.mac"] = [{"k": "include", "path": "once.mac" if sp == "via" else "../lib/once.mac"}]
            sp = f"lib/{sp}.mac"
        main += filler + [{"k": "include", "path": sp}]
        main_once += filler + ([{"k": "include", "path": sp}] if first else [])
        first = False
    main.append({"k": "insn", "mn": "halt", "ops": []})
    main_once.append({"k": "insn", "mn": "halt", "ops": []})
    with_once = draw(st.integers(0, 5)) != 0
    if not with_once:
        inc_body = inc_body[1:]
    a = {"files": dict(extra, **{"main.mac": main, "lib/once.mac": inc_body}), "blobs": {}, "mains": ["main.mac"], "charset": "bk"}
    b = {"files": dict(extra, **{"main.mac": main_once if with_once else main, "lib/once.mac": inc_body}), "blobs": {}, "mains": ["main.mac"], "charset": "bk"}
    linked = None
    if with_once and draw(st.integers(0, 3)) == 0:
        # the guarded file is also named on the command line, before or after the file that includes it: it contributes the first
        # time it is assembled, whichever way that happens
        linked = draw(st.sampled_from(["first", "last"]))
        if linked == "first":
            a["mains"] = ["lib/once.mac", "main.mac"]
            none = [s_ for s_ in main if not (s_["k"] == "include")]
            b = {"files": dict(extra, **{"main.mac": none, "lib/once.mac": inc_body}), "blobs": {}, "mains": ["lib/once.mac", "main.mac"], "charset": "bk"}
            if extra:
                linked = None       # an include through another file would be dropped with it: keep the plain case
                a["mains"] = ["main.mac"]
                b = {"files": dict(extra, **{"main.mac": main_once, "lib/once.mac": inc_body}), "blobs": {}, "mains": ["main.mac"], "charset": "bk"}
        else:
            a["mains"] = ["main.mac", "lib/once.mac"]
    return a, b, {"m": m, "with_once": with_once, "respelled": len(set(spellings)) > 1, "linked": linked}


def judge(a, b, use_model=True):
    ta, tb = progcheck.texts_of(a), progcheck.texts_of(b)
    oa, _ = progcheck.run_pd(a, ta)
    ob, _ = progcheck.run_pd(b, tb)
    fails = []
    for o, t, which in ((oa, ta, "structured"), (ob, tb, "flattened")):
        if o.kind == "timeout":
            raise core.Inconclusive("time budget")
        if o.kind in ("crash", "silent", "ok-with-errors"):
            fails.append((f"{o.kind}:{o.exc[0]}@{o.exc[1]}" if o.exc else o.kind, f"{which}: {o.kind} {o.exc}\n{progcheck.brief_texts(t)}"))
    if fails:
        return fails, oa, ob
    if not oa.same_result(ob):
        return [("not-equivalent", f"structured -> {oracle.brief(oa)}\nflattened  -> {oracle.brief(ob)}\n=== structured\n{progcheck.brief_texts(ta)}=== flattened\n{progcheck.brief_texts(tb)}")], oa, ob
    if use_model:
        r = model.assemble(b)
        if r.kind != "skip":
            res = progcheck.compare(r, ob, tb)
            if res:
                return [("reference:" + res[0], res[1])], oa, ob
    return [], oa, ob


def copies_differ(prog_unrolled, out):
    return True


def has_padding(stmts):
    return any(s["k"] in ("even", "odd", "align") or (s["k"] == "repeat" and has_padding(s["body"])) for s in stmts)


def has_hoist(stmts):
    for s in stmts:
        if s["k"] == "insn":
            for o in s["ops"]:
                if o[0] in ("idx", "idxd") and o[2][0] in ("bin", "un"):
                    return True
                if o[0] == "tgt":
                    return True
        if s["k"] == "repeat" and has_hoist(s["body"]):
            return True
        if s["k"] == "data" and any(e[0] == "bin" and e[1] in ("/", "%", "<<", ">>") for e in s["es"]):
            return True
    return False


def run_shard(spec, ctx):
    sub = spec["sub"]
    strat = {"repeat": repeat_case(), "link": link_case(), "insert": insert_case(), "end": end_case(), "once": once_case()}[sub]

    def check(v):
        a, b, meta = v
        fails, oa, ob = judge(a, b, use_model=sub not in ("end",))
        ta, tb = progcheck.texts_of(a), progcheck.texts_of(b)
        key = repr(sorted(ta.items())) + repr(sorted(tb.items()))
        labels = ["sub-" + sub, "outcome-" + oa.kind]
        nt = True
        if sub == "repeat":
            rep = [s for s in a["files"]["rep.mac"] if s["k"] == "repeat"][0]
            hoist = has_hoist(rep["body"])
            nt = meta["n"] >= 2 and (hoist or any(".") for _ in [0])
            labels += [f"n-{min(meta['n'], 6)}{'+' if meta['n'] >= 6 else ''}", "late-count" if meta["late"] else "literal-count"] + (["hoist-or-fixup"] if hoist else [])
        elif sub == "link":
            labels.append(f"files-{meta['files']}")
            if meta.get("extern_all"):
                labels.append("link-extern-all")
            nt = meta["files"] >= 2
        elif sub == "insert":
            labels.append("empty-blob" if meta["bytes"] == 0 else "blob")
            if meta.get("samename"):
                labels.append("insert-same-name-other-directory")
        elif sub == "end":
            labels.append("end-in-" + meta["where"])
        elif sub == "once":
            labels += [f"included-{meta['m']}x", "with-once" if meta["with_once"] else "without-once"] + (["once-path-respelled"] if meta.get("respelled") else []) + (["once-file-also-linked-" + meta["linked"]] if meta.get("linked") else [])
            nt = meta["m"] >= 2
        ctx.case(key, nt, labels, sample={"structured": progcheck.brief_texts(ta, 400), "flattened": progcheck.brief_texts(tb, 300)} if ctx.evaluations % 90 == 8 else None, evaluations=2)
        if fails:
            return (f"{sub}:{fails[0][0]}", fails[0][1], {"kind": "pair", "sub": sub, "a": progcheck.case_of(a), "b": progcheck.case_of(b)})
        return None

    core.hyp_search(ctx, strat, check, spec["examples"], "c16-" + sub)


def replay(case):
    if case["kind"] == "pair":
        fails, _, _ = judge(progcheck.prog_of(case["a"]), progcheck.prog_of(case["b"]), use_model=case.get("sub") != "end")
        return [(f"{case.get('sub')}:{s}", m) for s, m in fails]
    return oracle.replay_generic(case)
