"""C08 - every input ends in a result or a reported error (no internal exception, no hang, no silent failure)."""
import ast
import contextlib
import io
import os
import re
import subprocess
import sys

from hypothesis import strategies as st

from .. import core, driver, gen, mutate, oracle, progcheck, render

ID = "C08"
LEVEL = "exploration"
RULE = ("texts of grammar G (DESIGN section 3): (1) model programs of vf/gen.py rendered under a drawn style, with 0-3 catalogued faults "
        "planted and 0-8 token/character level mutations; (2) windows of 5-60 lines of the practice corpus and the source snippets of "
        "tests/test_compiler.py under the same mutations; (2b) programs with real included and inserted files, an .include possibly wrapped into a .repeat whose count is a number, a late symbol or address-dependent, plus mutations; (3, thorough tier) a coverage-guided atheris campaign whose bytes select a seed "
        "text and a mutation sequence; (4) a statement grid, enumerated: every directive, 20 mnemonics and 29 other statement heads x 100 "
        "operand shapes (single operands in four contexts: plain, .repeat body, .repeat with an address-dependent count, after .link; "
        "operand pairs with ', ' and ' ' between them - all in the thorough tier, a seed-chosen sixteenth in the quick tier). Every text is assembled under FilterHandler(BareHandler) and FilterHandler(GraphicalHandler), failing texts once more with every warning identifier switched off; the "
        "outcome must be success or failure with >= 1 error diagnostic. Violations: any other exception (what main_cli prints as "
        "'unexpected internal compiler error'), failure without an error diagnostic, and a run that exceeds 60 s in a fresh "
        "subprocess after exceeding the 5 s in-process watchdog (runs classified slow-but-finite are counted as inconclusive). "
        "Non-trivial: >= 3 non-empty lines and the text reaches the compiler (no critical parse error); distinct = distinct text.")
ASSUMPTIONS = ["termination is decided as 'within 60 s on bounded inputs'; a 5 s watchdog hit alone is never a violation",
               "pdpy11's running time doubles with every executed address-dependent padding directive (.even/.odd/.align), 17 take 17 s: "
               "texts that execute more than 10 of them (occurrences weighted by the enclosing .repeat counts) and time out inside the "
               "lazy-evaluation code are classified slow-finite",
               "crashes are bucketed by (exception type, innermost pdpy11 frame)"]

PRACTICE = os.path.join(core.REPO, "tests", "practice")
VOCAB = (["mov", "clr", "br", "sob", "jsr", "rts", "emt", "mul", "ldf", "stf", "push", ".word", ".byte", ".ascii", ".asciz", ".rad50", ".blkb", ".even", ".align",
          ".repeat", ".include", ".link", ".end", ".once", ".extern", "all", ".error", ".title", "make_bin", "make_wav", "insert_file", ".dword", "r0", "r7", "sp",
          "pc", "ac0", "ac5", "%", "^C", "^R", "^X", "^B", "<0>", "y = y"] + list(", : = ( ) < > { } # @ % ^ ' \" / \\ ; . + - * ! | & _ $".split(" ")) + ["<<", ">>", "==", "::", "\n", "\t", " "])
ALPHABET = "abxyzRQ_$.,:;=()<>{}#@%^'\"/\\+-*!|&~ \t\n\x00éЖ€\r\f\v\xa0\u2028\x85\x1c\u0d6f\u00b2\u0663\u212a\u017f\u0130"

TOKEN = re.compile(r"[A-Za-z_$.][A-Za-z_0-9$.]*|\d[A-Za-z_0-9$.]*|<<|>>|==|::|\s+|.", re.S)


def tokenize(text):
    return TOKEN.findall(text)


def apply_mutations(text, muts):
    """muts: list of (op, a, b, c) with integer selectors; numbers are never touched and never inserted"""
    toks = tokenize(text)
    for op, a, b, c in muts:
        if not toks:
            break
        idx = [i for i, t in enumerate(toks) if not t[0].isdigit()]
        if not idx:
            break
        i = idx[a % len(idx)]
        if op == "delete":
            del toks[i]
        elif op == "duplicate":
            toks.insert(i, toks[i])
        elif op == "swap":
            j = idx[b % len(idx)]
            toks[i], toks[j] = toks[j], toks[i]
        elif op == "replace-own":
            j = idx[b % len(idx)]
            toks[i] = toks[j]
        elif op == "replace-vocab":
            toks[i] = VOCAB[b % len(VOCAB)]
        elif op == "char-delete":
            t = toks[i]
            k = b % len(t)
            toks[i] = t[:k] + t[k + 1:]
        elif op == "char-replace":
            t = toks[i]
            k = b % len(t)
            toks[i] = t[:k] + ALPHABET[c % len(ALPHABET)] + t[k + 1:]
        elif op == "char-insert":
            t = toks[i]
            k = b % (len(t) + 1)
            toks[i] = t[:k] + ALPHABET[c % len(ALPHABET)] + t[k:]
        elif op == "truncate":
            # the text ends here (end of file in the middle of whatever stands there), sometimes right behind a backslash
            cut = max(1, i)
            toks = toks[:cut] + (["\\"] if c % 3 == 0 else [])
        elif op == "char-transpose" and len(toks[i]) > 1:
            t = toks[i]
            k = b % (len(t) - 1)
            toks[i] = t[:k] + t[k + 1] + t[k] + t[k + 2:]
        toks = [t for t in toks if t]
    return "".join(toks)


mutation_st = st.tuples(st.sampled_from(["delete", "duplicate", "swap", "replace-own", "replace-vocab", "char-delete", "char-replace", "char-insert", "char-transpose", "truncate"]),
                        st.integers(0, 10000), st.integers(0, 10000), st.integers(0, 10000))


_seeds = None


def seed_texts():
    """practice programs and the source snippets of the repository's own compiler tests"""
    global _seeds
    if _seeds is None:
        texts = []
        for name in sorted(os.listdir(PRACTICE)):
            with open(os.path.join(PRACTICE, name, "code.mac"), encoding="utf-8") as f:
                texts.append(("practice/" + name, f.read()))
        try:
            with open(os.path.join(core.REPO, "tests", "test_compiler.py"), encoding="utf-8") as f:
                tree = ast.parse(f.read())
            n = 0
            for node in ast.walk(tree):
                if isinstance(node, ast.Constant) and isinstance(node.value, str) and 3 <= len(node.value) <= 2000 and re.search(r"[a-z]", node.value):
                    texts.append((f"test_compiler/{n}", node.value + ("\n" if not node.value.endswith("\n") else "")))
                    n += 1
        except (OSError, SyntaxError):
            pass
        _seeds = texts
    return _seeds


class Tee:
    def __init__(self, *hs):
        self.hs = hs

    def __call__(self, priority, identifier, *reports):
        for h in self.hs:
            h(priority, identifier, *reports)


def probe(files, charset="bk", timeout=5.0):
    """assemble under both report handlers -> list of Outcomes"""
    p = driver.pd()
    outs = []
    for kind in ("bare", "graphical"):
        real = p.reports.BareHandler() if kind == "bare" else p.reports.GraphicalHandler()
        sink = io.StringIO()
        with contextlib.redirect_stdout(sink), contextlib.redirect_stderr(sink):
            out = driver.assemble(files, charset=charset, timeout=timeout, make_handler=lambda rec: p.reports.FilterHandler(Tee(rec, real), {}))
        outs.append(out)
    if outs[0].kind == "error":
        # the same failing text with every warning switched off ('-Wno-<each identifier>'): it must still say why it fails
        sink = io.StringIO()
        with contextlib.redirect_stdout(sink), contextlib.redirect_stderr(sink):
            out = driver.assemble(files, charset=charset, timeout=timeout, make_handler=lambda rec: p.reports.FilterHandler(Tee(rec, p.reports.BareHandler()), AllOff()))
        outs.append(out)
    return outs


class AllOff(dict):
    """warning control that answers 'disabled' for every identifier"""
    def __contains__(self, key):
        return True

    def __getitem__(self, key):
        return False


PADS = re.compile(r"\.(even|odd|align)\b", re.I)
REPEAT_OPEN = re.compile(r"\.repeat\s+([^{\n]*)\{", re.I)


def executed_pads(text):
    """estimate of how many address-dependent padding statements the assembler executes: occurrences weighted by the counts of
    the enclosing .repeat blocks (a symbolic count is taken as 4, the generator's maximum)"""
    total, stack, i = 0, [], 0
    events = sorted([(m.start(), "open", m) for m in REPEAT_OPEN.finditer(text)] + [(m.start(), "pad", m) for m in PADS.finditer(text)]
                    + [(j, "close", None) for j, ch in enumerate(text) if ch == "}"], key=lambda t: t[0])
    for _, kind, m in events:
        if kind == "open":
            arg = m.group(1).strip()
            try:
                n = int(arg[:-1], 10) if arg.endswith(".") else int(arg, 8)
            except ValueError:
                n = 4
            stack.append(max(1, min(n, 64)))
        elif kind == "close":
            if stack:
                stack.pop()
        else:
            w = 1
            for n in stack:
                w *= n
            total += w
    return total


def classify(files, outs, charset="bk", pad_weight=1):
    """-> (None | (sig, msg), class label)"""
    for out, hk in zip(outs, ("bare", "graphical", "bare (every warning switched off)")):
        if out.kind == "crash":
            if out.exc[0] == "MemoryError":
                return None, "inconclusive-memory"
            if out.exc[0] == "RecursionError":
                return (f"crash:RecursionError@{out.exc[1]}", f"recursion limit exceeded under the {hk} handler"), "crash"
            return (f"crash:{out.exc[0]}@{out.exc[1]}", f"internal exception under the {hk} handler: {out.exc}"), "crash"
        if out.kind in ("silent", "ok-with-errors"):
            return (f"{out.kind}", f"{out.kind}: reports {[(r[0], r[1]) for r in out.reports][:5]}"), out.kind
    if any(o.kind == "timeout" for o in outs):
        text = "\n".join(t for _, t in files)
        stack = next((o.exc[2] for o in outs if o.kind == "timeout" and o.exc and isinstance(o.exc[2], list)), [])
        in_repeat = ("metacommands.py", "repeat") in stack          # a finite range() loop is running
        in_lazy = any(f == "deferred.py" for f, _ in stack[-6:])
        if in_repeat or (in_lazy and executed_pads(text) * pad_weight > 10):
            if os.environ.get("VERIF_DEBUG_LAST"):
                with open(f"/dev/shm/c08-slow-{os.getpid()}.txt", "a") as f_:
                    f_.write(repr(text[:300]) + "\n")
            return None, "inconclusive-slow-finite"
        # confirm in a fresh process with a generous limit - once per shard: every further watchdog hit behind a confirmed hang is
        # only counted (re-confirming each one, also while shrinking, would cost more than a minute apiece)
        if _hang_confirmed[0]:
            _hang_confirmed[0] += 1
            return None, "inconclusive-after-confirmed-hang"
        if confirm_hang(files, charset):
            _hang_confirmed[0] = 1
            return ("hang", "no result within 60 s in a fresh process"), "hang"
        return None, "inconclusive-slow"
    if len(outs) > 2 and outs[2].kind not in ("error", "timeout"):
        return ("warnings-off-changes-outcome", f"fails under the default selection but ends with {outs[2].kind} when every warning is switched off"), "handler-dependent"
    if outs[0].kind != outs[1].kind:
        return ("handler-dependent", f"bare handler: {outs[0].kind}, graphical handler: {outs[1].kind}"), "handler-dependent"
    return None, outs[0].kind


_hang_confirmed = [0]


def confirm_hang(files, charset):
    with driver.Scratch({os.path.basename(n) or f"f{i}.mac": t for i, (n, t) in enumerate(files)}) as sc:
        names = [os.path.basename(n) or f"f{i}.mac" for i, (n, t) in enumerate(files)]
        env = dict(os.environ, PYTHONPATH=core.REPO, PYTHONDONTWRITEBYTECODE="1")
        try:
            subprocess.run([sys.executable, "-m", "pdpy11"] + names + ["-o", "o.bin", "--charset", charset], cwd=sc.path, env=env,
                           stdout=subprocess.DEVNULL, stderr=subprocess.DEVNULL, timeout=60)
            return False
        except subprocess.TimeoutExpired:
            return True


@st.composite
def g_case(draw):
    variant = draw(st.sampled_from(["plain", "plain", "files", "bytes"]))
    opts = {"plain": dict(max_files=1, skip=True), "files": dict(max_files=3, skip=True), "bytes": dict(max_files=1, byte_only=True)}[variant]
    prog = draw(gen.program_st(const_addr=True, locals=True, **opts))
    style = draw(gen.style_st())
    st_ = render.Style(style["ints"], style["rules"])
    texts = [render.render_file(prog["files"][m], st_)[0] for m in prog["mains"]]
    nfaults = draw(st.sampled_from([0, 0, 1, 1, 2, 3]))
    planted = []
    for _ in range(nfaults):
        f = draw(st.sampled_from(mutate.FAULTS + mutate.WARNINGS))
        pre, line, post = f.render(draw(st.integers(1, 99)))
        line, _ = mutate.strip(line)
        i = draw(st.integers(0, len(texts) - 1))
        lines = texts[i].split("\n")
        at = draw(st.integers(0, len(lines)))
        lines[at:at] = pre + [line] + post
        texts[i] = "\n".join(lines)
        planted.append(f.kind)
    muts = draw(st.lists(mutation_st, max_size=8))
    which = draw(st.integers(0, len(texts) - 1))
    texts[which] = apply_mutations(texts[which], muts)
    return {"kind": "texts", "texts": texts, "charset": draw(st.sampled_from(["bk", "bk", "utf-8"])), "meta": {"source": "G-" + variant, "planted": planted, "mutations": len(muts)}}


INCLUDE_LINE = re.compile(r"^([ \t]*)(\.include[^\n]*)$", re.M | re.I)


@st.composite
def tree_case(draw):
    """programs with real included and inserted files; an .include may be wrapped into a .repeat whose count is a number, a
    symbol defined at the end of the file, or depends on the address of a label (known only when everything else is)"""
    prog = draw(gen.program_st(max_files=2, includes=True, inserts=True, const_addr=True, locals=True))
    style = draw(gen.style_st())
    st_ = render.Style(style["ints"], style["rules"])
    tree = {p: render.render_file(stmts, st_)[0] for p, stmts in prog["files"].items()}
    wrapped = 0
    for path in sorted(tree):
        def wrap(m):
            nonlocal wrapped
            how = draw(st.sampled_from(["no", "no", "number", "late", "address"]))
            if how == "no":
                return m.group(0)
            wrapped += 1
            count = {"number": "2", "late": f"wq{wrapped}", "address": f"aq{wrapped} / 40000 + 1"}[how]
            head = f"aq{wrapped}:\n" if how == "address" else ""
            return f"{head}{m.group(1)}.repeat {count} {{\n{m.group(1)}\t{m.group(2)}\n{m.group(1)}}}\nzq{wrapped}:"
        tree[path] = INCLUDE_LINE.sub(wrap, tree[path])
        for i in range(1, wrapped + 1):
            if f"wq{i}" in tree[path] and f"wq{i} =" not in tree[path]:
                tree[path] += f"wq{i} = 2\n"
    if draw(st.integers(0, 5)) == 0:
        # a file that includes itself, directly or through the file that includes it, with or without .once
        # (a small file of its own: 32 nested copies of a generated file would only be slow)
        how = draw(st.sampled_from(["self", "self-once", "cycle", "cycle-once"]))
        once = "\t.once\n" if how.endswith("once") else ""
        if how.startswith("self"):
            tree["inc/loop.mac"] = once + "lq:\tnop\n\t.include \"loop.mac\"\n\t.word lq\n"
        else:
            tree["inc/loop.mac"] = once + "lq:\tnop\n\t.include \"loop2.mac\"\n"
            tree["inc/loop2.mac"] = "\tclr r0\n\t.include \"./loop.mac\"\n"
        path = draw(st.sampled_from(sorted(prog["mains"])))
        tree[path] += '\t.include "inc/loop.mac"\n'
    muts = draw(st.lists(mutation_st, max_size=4))
    which = draw(st.sampled_from(sorted(tree)))
    tree[which] = apply_mutations(tree[which], muts)
    blobs = {k: bytes(v).hex() for k, v in prog.get("blobs", {}).items()}
    return {"kind": "tree", "tree": tree, "blobs": blobs, "mains": prog["mains"], "charset": "bk", "meta": {"source": "tree", "planted": [], "mutations": len(muts), "wrapped": wrapped}}


@st.composite
def corpus_case(draw):
    seeds = seed_texts()
    practice = [x for x in seeds if x[0].startswith("practice/")]
    snippets = [x for x in seeds if not x[0].startswith("practice/")] or practice
    name, text = draw(st.one_of(st.sampled_from(practice), st.sampled_from(snippets)))
    lines = text.split("\n")
    if len(lines) > 60:
        start = draw(st.integers(0, len(lines) - 60))
        n = draw(st.integers(5, 60))
        lines = lines[start:start + n]
    text = "\n".join(lines) + "\n"
    muts = draw(st.lists(mutation_st, min_size=0, max_size=8))
    return {"kind": "texts", "texts": [apply_mutations(text, muts)], "charset": "bk", "meta": {"source": "corpus-" + name.split("/")[0], "planted": [], "mutations": len(muts)}}


# ---------------------------------------------------------------------------
# statement grid: every statement head x operand shape x separator x context, enumerated

GRID_OPERANDS = ["", "1", "x", "lab", "undef", "#1", "#x", "@#x", "@#lab", "(r1)", "(r1)+", "-(sp)", "@(r2)+", "@-(r3)", "2(r3)", "@x(r4)", "x+2(r1)", "-x(r2)",
                 "(1)", "(1)+2", "(x)*2", "(1)(2)", "(x)", "<1>", "<x+1>", "<lab>", "x+", "-x", "-lab", "1$", "1:", "\"ab\"", "'a'", "'a", "/ab/", "\"ab\"<12>",
                 "^Rabc", "^X1f", "^B101", "^C1", "1.", "0x1f", "8", "r1", "%1", "%x", "%lab", "ac1", "sp", "{ nop }", "{ .word . }", "all", ".", ".+2", "x==1", "x=1", "a b",
                 "10/0", "x/lab", "lab/2", "lab*2", "1<<x", "lab-lab", "lab+lab", "x:", "@@x", "##1", "@r1", "@lab", "(lab)", "lab(r1)", "(r1)(r2)", "-(1)", "#", "@", ",",
                 "<20000000000000>", "/zz/<20000000000000>", "<-1>", "^R\u212a", "^Ra\u017f", "\"\u0131\"", "'\u212a", "1\u00b2", "\u0d6f", "<0>", "/a/<0>/b/",
                 "<50><47>", "<50>/99/", "<47><47><47>", "<50>", "\u017f", "#\u017f", "/\u017f/", "<177777>", "<200000>", "-1", "177777", "200000", "-200000",
                 "'\\q'", "\"a\\q\"", "\"\\q\\q\"", "'\\q", "'\\n'", "\"ab\"", "'ab'"]
GRID_MNEMONICS = ["nop", "clr", "mov", "jsr", "mul", "xor", "br", "sob", "rts", "spl", "mark", "emt", "ldf", "stf", "ldexp", "stcfi", "push", "call", "jmp", "cmpb"]
GRID_OTHER = ["t\u017ft", "\u017fob", ".a\u017fcii", "\u017f", "\u017f:", "\u017f =", ".lin\u212a", "x", "lab", "undef", "1", "-1", "'a", ".", "x:", "1$:", "x =", "x ==", "lab::", "lab =", ". =", "1$", "r1", "%", "#1", "@x", "(x)", "<x>", "\"ab\""]
GRID_CONTEXTS = ["plain", "repeat", "lazy-repeat", "linked"]


def grid_heads():
    p = driver.pd()
    from importlib import import_module
    b = import_module("pdpy11.builtins")
    return sorted(b.metacommands) + GRID_MNEMONICS + GRID_OTHER


def grid_text(head, ops, sep, context):
    stmt = head + (" " if ops and ops[0] else "") + sep.join(ops)
    pre = "x = 5\ns = 3\nlab:\tnop\n"
    post = "\t.word x, lab\n"
    if context == "plain":
        return pre + "\t" + stmt + "\n" + post
    if context == "repeat":
        return pre + "\t.repeat 2 {\n\t\t" + stmt + "\n\t}\n" + post
    if context == "lazy-repeat":
        return pre + "\t.repeat lab / 1000 {\n\t\t" + stmt + "\n\t}\n" + post
    return "\t.link 2000\n" + pre + "\t" + stmt + "\n" + post


def grid_cases(tier, seed):
    """the enumeration: all single-operand statements in all contexts; operand pairs in the plain and lazy-repeat contexts
    (quick tier: one sixteenth of the pairs, chosen by the seed)"""
    heads = grid_heads()
    for head in heads:
        for o in GRID_OPERANDS:
            for context in GRID_CONTEXTS:
                yield head, [o], ", ", context
    n = 0
    for head in heads:
        for o1 in GRID_OPERANDS:
            if not o1:
                continue
            for o2 in GRID_OPERANDS:
                if not o2:
                    continue
                if head == ".repeat" and o1 in ("177777", "200000", "<177777>", "<200000>", "1<<x", "lab*2", "lab", "(lab)", "<lab>", "lab+lab", "1.", "0x1f", "^X1f", "8"):
                    continue      # a five- or six-digit repeat count is outside G's magnitude bounds (finite, but minutes per text)
                for sep in (", ", " "):
                    n += 1
                    if tier == "quick" and (n + seed) % 16:
                        continue
                    yield head, [o1, o2], sep, "plain" if n % 3 else "lazy-repeat"


def judge(case):
    if os.environ.get("VERIF_DEBUG_LAST"):
        with open(f"/dev/shm/c08-last-{os.getpid()}.json", "w") as f_:
            import json as _json
            _json.dump(case, f_)
    if case["kind"] == "tree":
        tree = dict(case["tree"])
        tree.update({k: bytes.fromhex(v) for k, v in case.get("blobs", {}).items()})
        with driver.Scratch(tree) as sc:
            files = [(os.path.join(sc.path, m), case["tree"][m]) for m in case["mains"]]
            outs = probe(files, case.get("charset", "bk"))
            # every file of the tree counts for the padding estimate; a file that includes itself is assembled 32 times
            everything = [(p_, t) for p_, t in sorted(case["tree"].items())]
            selfinc = any(re.search(r'\.include\s+"' + re.escape(os.path.basename(p_)) + '"', t, re.I) for p_, t in everything)
            res, label = classify(everything, outs, case.get("charset", "bk"), pad_weight=32 if selfinc else 1)
        return res, label, outs
    files = [(f"/vf/t{i}.mac", t) for i, t in enumerate(case["texts"])]
    outs = probe(files, case.get("charset", "bk"))
    res, label = classify(files, outs, case.get("charset", "bk"))
    return res, label, outs


def shards(tier):
    k = 16
    n = 6000 if tier == "quick" else 150000
    specs = []
    for i in range(k):
        specs.append({"part": "G" if i % 4 != 3 else "corpus", "i": i, "examples": n // k})
    for i in range(4):
        specs.append({"part": "tree", "i": i, "examples": n // k})
    for i in range(k):
        specs.append({"part": "grid", "i": i, "n": k, "tier": tier})
    if tier == "thorough":
        for i in range(16):
            specs.append({"part": "atheris", "i": i, "seconds": 300, "corpus": "empty" if i % 2 else "seeds"})
    return specs


def run_shard(spec, ctx):
    if spec["part"] == "atheris":
        from .. import fuzz08
        fuzz08.campaign(ctx, spec)
        return
    if spec["part"] == "grid":
        for j, (head, ops, sep, context) in enumerate(grid_cases(spec["tier"], ctx.seed)):
            if j % spec["n"] != spec["i"]:
                continue
            text = grid_text(head, ops, sep, context)
            case = {"kind": "texts", "texts": [text], "charset": "bk", "meta": {"source": "grid", "planted": [], "mutations": 0}}
            res, label, outs = judge(case)
            reached = outs[0].kind in ("ok", "error") and not any(r[0] == "critical" for r in outs[0].reports)
            if label.startswith("inconclusive"):
                ctx.exclude(label)
            ctx.case(text, reached, ["src-grid", "class-" + label, "grid-" + context, f"grid-operands-{len(ops)}"],
                     sample={"source": "grid", "text": text, "class": label} if j % 4001 == 7 else None, evaluations=2)
            if res:
                ctx.fail(res[0], res[1] + "\n--- text\n" + text, case)
        return
    strat = g_case() if spec["part"] == "G" else tree_case() if spec["part"] == "tree" else corpus_case()

    def check(case):
        if _hang_confirmed[0] > 4:
            # a hang is confirmed and recorded; every further hanging case would cost 10 s of watchdog time: the rest of this
            # shard's budget is only counted
            ctx.exclude("skipped-after-confirmed-hang")
            return None
        res, label, outs = judge(case)
        text = "\n".join(case["texts"]) if "texts" in case else "".join(f";;; {p_}\n{t}" for p_, t in sorted(case["tree"].items()))
        lines = [l for l in text.split("\n") if l.strip()]
        reached = outs[0].kind in ("ok", "error") and not any(r[0] == "critical" for r in outs[0].reports)
        m = case["meta"]
        labels = ["src-" + m["source"], "class-" + label, f"mutations-{min(m['mutations'], 8)}", "planted-" + str(len(m["planted"])),
                  "lines-" + ("<10" if len(lines) < 10 else "<30" if len(lines) < 30 else "30+")]
        if label.startswith("inconclusive"):
            ctx.exclude(label)
        ctx.case(text, len(lines) >= 3 and reached, labels, sample={"source": m["source"], "text": text[:400], "class": label} if ctx.evaluations % 150 == 12 or not ctx.samples else None,
                 evaluations=2)
        if res:
            return (res[0], res[1] + "\n--- text\n" + text[:1500], case)
        return None
    # in chunks: the library's record of explored choices grows with the number of examples of one search (a thorough-tier
    # tree shard ran out of its 6 GB address-space limit inside the library)
    left, j = spec["examples"], 0
    while left > 0:
        core.hyp_search(ctx, strat, check, min(left, 1500), "c08-" + spec["part"] + (f"-{j}" if j else ""), max_buckets=8)
        left -= 1500
        j += 1


def replay(case):
    if case["kind"] in ("texts", "tree"):
        res, label, outs = judge(case)
        return [res] if res else []
    return oracle.replay_generic(case)
