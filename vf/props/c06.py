"""C06 - data directives store exactly the stated value or refuse."""
import struct

from hypothesis import strategies as st

from .. import core, driver, oracle, render

ID = "C06"
LEVEL = "exploration"
RULE = ("Hypothesis programs of 1-5 data directives (.byte/.db .word/.dw .dword with 0-8 operands weighted on every boundary "
        "0, +-1, +-(2^n-1), +-2^n, +-(2^n+1), 2^(n-1), literal or through symbols defined before/after; .ascii/.asciz with every "
        "escape form, all three quotes, raw newlines, <n> chunks for n in -2..257, over charsets bk utf-8 koi8-r latin-1 cp866; "
        ".blkb/.blkw counts incl. -1 0 65535 65536; .even/.odd/.align 1..64) placed at a steered address residue, followed by a "
        "sentinel byte; in half of the programs the directives form a block of their own (.repeat body executed 1-3 times - the copies differ when the body's padding depends on the "
        "address -, included file, second linked file at a non-zero offset) followed by .even / .align 4 and sentinels, so that the block's length matters. Oracle: the directive rules of the property (value mod 2^n little endian, .dword high word first, codec "
        "bytes, exact zero fill) and the must-fail set (|v| >= 2^n, negative or >= 2^16 count, <n> outside 0..255, unencodable "
        "character, unknown escape, word data at an odd address), asserted in both directions. Exhaustive sub-part: .even/.odd/"
        ".align m for every m in 1..64 at every residue 0..m-1 (and 0..7). Non-trivial: >= 1 boundary value, escape, error or "
        "non-zero padding; distinct = distinct program text + charset.")
ASSUMPTIONS = ["Python's codecs are the reference for utf-8, koi8-r, latin-1, cp866; for bk only ASCII < 0x7F, U+0080-U+009F and "
               "the KOI8-R letters are used here (the rest of the table is C14's business)",
               "a build with several refused values must report at least one of the expected identifiers (the first refusal aborts)"]

CHARSETS = ["bk", "utf-8", "koi8-r", "latin-1", "cp866"]


def boundaries(bits):
    n = 1 << bits
    vals = [0, 1, -1, n - 1, -(n - 1), n, -n, n + 1, -(n + 1), n // 2, n // 2 - 1, -(n // 2), n - 2]
    return vals


def value_st(bits):
    n = 1 << bits
    return st.one_of(st.sampled_from(boundaries(bits)), st.sampled_from(boundaries(bits)), st.integers(-n + 1, n - 1), st.integers(0, 255))


ASCII_POOL = "abcXYZ 019!#$%&()*+,-.:;<=>?@[]^_`{|}~"
CYR = "абвЯЮжщъ"
LATIN = "éüñ"
WIDE = "€あ"
CTRL = "\x00\x01\x1b\x7f\x80\x9f"


ESCAPES = [("\\n", "\n"), ("\\r", "\r"), ("\\t", "\t"), ("\\\\", "\\"), ('\\"', '"'), ("\\'", "'"), ("\\/", "/"),
           ("\\N", "\n"), ("\\R", "\r"), ("\\T", "\t"), ("\\\n", ""), ("\\x41", "A"), ("\\x00", "\x00"), ("\\x7f", "\x7f"),
           ("\\xe9", "\xe9"), ("\\X9F", "\x9f"), ("\\xFf", "\xff"), ("\\x0d", "\r"), ("\\x1B", "\x1b")]
ALLCHARS = ASCII_POOL + CYR + LATIN + WIDE + CTRL


def atom_st(quote, charset, dirty):
    """atoms of a quoted chunk: (source text, resulting string or None, class).  clean: only encodable characters and
    valid escapes; dirty: offenders for this charset and unknown escapes may appear."""
    good_chars = [c for c in ALLCHARS if c not in "\x00\x01\x1b\x7f\x80\x9f" and encode_text(c, charset) is not None]
    bad_chars = [c for c in ALLCHARS if c not in "\x00\x01\x1b\x7f\x80\x9f" and encode_text(c, charset) is None]
    good_esc = [e for e in ESCAPES if encode_text(e[1], charset) is not None]
    bad_esc = [e for e in ESCAPES if encode_text(e[1], charset) is None]
    other_quotes = [q for q in "\"'/" if q != quote]
    lit = st.sampled_from(good_chars + other_quotes + ["\n"]).map(lambda c: (c, c, "char"))
    esc = st.sampled_from(good_esc).map(lambda t: (t[0], t[1], "escape"))
    options = [lit, lit, lit, esc, esc]
    if dirty:
        if bad_chars:
            options.append(st.sampled_from(bad_chars).map(lambda c: (c, c, "char")))
        if bad_esc:
            options.append(st.sampled_from(bad_esc).map(lambda t: (t[0], t[1], "escape")))
        options.append(st.sampled_from([("\\q", None), ("\\z", None), ("\\8", None)]).map(lambda t: (t[0], None, "bad-escape")))
    return st.one_of(*options)


@st.composite
def string_directive(draw, charset, dirty):
    d = draw(st.sampled_from(["ascii", "asciz"]))
    chunks = []
    for _ in range(draw(st.integers(1, 4))):
        if draw(st.integers(0, 3)) == 0:
            if dirty:
                n = draw(st.sampled_from([-2, -1, 256, 257, 255, 0]))
            else:
                n = draw(st.one_of(st.sampled_from([0, 1, 127, 128, 254, 255]), st.integers(0, 255)))
            chunks.append(["n", n, draw(st.booleans()), draw(st.integers(0, 2)) == 0])
        else:
            q = draw(st.sampled_from(['"', "'", "/"]))
            atoms = draw(st.lists(atom_st(q, charset, dirty), min_size=0, max_size=8))
            chunks.append(["s", q, [list(a) for a in atoms]])
    return {"d": d, "chunks": chunks}


def legal_value_st(bits):
    n = 1 << bits
    legal = [v for v in boundaries(bits) if abs(v) < n]
    return st.one_of(st.sampled_from(legal), st.sampled_from(legal), st.integers(-n + 1, n - 1), st.integers(0, 255))


@st.composite
def directive(draw, charset, dirty):
    k = draw(st.sampled_from(["byte", "word", "dword", "byte", "word", "str", "str", "blk", "pad", "align"]))
    if k in ("byte", "word", "dword"):
        bits = {"byte": 8, "word": 16, "dword": 32}[k]
        vals = draw(st.lists(value_st(bits) if dirty else legal_value_st(bits), min_size=0, max_size=8))
        spell = [draw(st.integers(0, 5)) for _ in vals]   # 1: symbol before, 2: symbol after, else literal
        return {"k": k, "vals": vals, "spell": spell, "alias": draw(st.booleans()), "keep_odd": dirty and draw(st.booleans())}
    if k == "str":
        s = draw(string_directive(charset, dirty))
        s["k"] = "str"
        return s
    if k == "blk":
        n = draw(st.sampled_from([-1, 65536, -2, 65537]) if dirty else st.one_of(st.sampled_from([0, 1, 2, 65535, 3, 7]), st.integers(0, 300)))
        return {"k": "blk", "d": draw(st.sampled_from(["blkb", "blkw"])), "n": n, "sym": draw(st.integers(0, 3))}
    if k == "pad":
        return {"k": "pad", "d": draw(st.sampled_from(["even", "odd"]))}
    return {"k": "align", "m": draw(st.integers(1, 64)), "sym": draw(st.integers(0, 3))}


@st.composite
def program(draw):
    charset = draw(st.sampled_from(CHARSETS))
    n = draw(st.integers(1, 5))
    dirty_at = draw(st.integers(0, n - 1)) if draw(st.integers(0, 9)) < 3 else -1
    items = [draw(directive(charset, i == dirty_at)) for i in range(n)]
    wrap = draw(st.sampled_from([None, None, None, "repeat", "repeat", "include", "second"]))
    return {"kind": "c06", "residue": draw(st.integers(0, 7)), "items": items, "wrap": wrap, "pad": draw(st.integers(1, 9)),
            "copies": draw(st.sampled_from([1, 2, 3, 3])),
            "charset": charset, "base": draw(st.sampled_from([None, None, 0, 0o1001, 0o40000])),
            "ints": draw(st.lists(st.integers(0, 255), min_size=1, max_size=20)),
            "rules": sorted(draw(st.sets(st.sampled_from(["radix", "case-directive", "directive-alias", "blanks", "case-radix"]), max_size=3)))}


def encode_text(s, charset):
    """-> bytes or None (unencodable) by the reference rule"""
    if charset == "bk":
        out = bytearray()
        for ch in s:
            o = ord(ch)
            if o < 0x7F or 0x80 <= o <= 0x9F:
                out.append(o)
            elif ch in CYR:
                out += ch.encode("koi8-r")
            else:
                return None
        return bytes(out)
    try:
        return s.encode(charset)
    except UnicodeEncodeError:
        return None


def build(case):
    """-> (text or (tree, mains), image or None, error ids, labels, nontrivial)"""
    style = render.Style(case["ints"], case["rules"])
    charset = case["charset"]
    base = case["base"]
    B = 0o1000 if base is None else base
    wrap = case.get("wrap")
    front = case.get("pad", 0) if wrap in ("include", "second") else 0   # bytes of the first file in front of the unit
    pre, post, body = [], [], []
    if base is not None and not front:
        pre.append({"k": "link", "e": ("num", base)})
    image = bytearray(front)
    errors = set()
    labels = set()
    nt = False
    nsym = 0
    prims = []      # what the statements of `body` do, in order: replayed for the further copies of a .repeat

    def apply(prim):
        nonlocal nt
        addr = B + len(image)
        kind = prim[0]
        if kind == "raw":
            image.extend(prim[1])
        elif kind == "wordish":
            if addr % 2:
                errors.add("odd-address")
                labels.add("odd-address")
                nt = True
                image.extend(b"\0")  # pdpy11 pads; irrelevant since the build must fail
            image.extend(prim[1])
        elif kind in ("even", "odd", "align"):
            pad = (addr % 2 == 1) if kind == "even" else (addr % 2 == 0) if kind == "odd" else (-addr) % prim[1]
            image.extend(b"\0" * int(pad))
            if pad and len(prim) > (2 if kind == "align" else 1):
                nt = True
                labels.add("pad-nonzero")

    def emit(*prim):
        prims.append(prim)
        apply(prim)

    r = case["residue"]
    body.append({"k": "blk", "d": "blkb", "e": ("num", r)})
    emit("raw", b"\0" * r)

    def spell(v, how):
        nonlocal nsym
        if how in (1, 2):
            name = f"dk{nsym}"
            nsym += 1
            (pre if how == 1 else post).append({"k": "assign", "name": name, "e": ("num", v)})
            return ("sym", name)
        return ("num", v)

    for it in case["items"]:
        addr = B + len(image)
        k = it["k"]
        if k in ("byte", "word", "dword"):
            bits = {"byte": 8, "word": 16, "dword": 32}[k]
            n = 1 << bits
            es = [spell(v, h) for v, h in zip(it["vals"], it["spell"])]
            s = {"k": "data", "d": k, "es": es}
            if it["alias"] and k != "dword":
                s["d"] = k
                body.append({"k": "raw", "text": "\t" + {"byte": ".db", "word": ".dw"}[k] + (" " + ", ".join(render.expr(e, style) for e in es) if es else "")})
            else:
                body.append(s)
            labels.add("dir-" + k)
            if k != "byte" and addr % 2 and not it.get("keep_odd"):
                body.insert(len(body) - 1, {"k": "even"})
                emit("even")
            data = bytearray()
            vals = it["vals"] or [0]
            for v in vals:
                if abs(v) >= n:
                    errors.add("value-out-of-bounds")
                    labels.add("value-reject")
                    nt = True
                    v = 0
                elif v in boundaries(bits) and v not in (0, 1):
                    labels.add("value-boundary")
                    nt = True
                v %= n
                if k == "byte":
                    data.append(v)
                elif k == "word":
                    data += struct.pack("<H", v)
                else:
                    data += struct.pack("<HH", v >> 16, v & 0xFFFF)
            emit("raw" if k == "byte" else "wordish", bytes(data))
        elif k == "str":
            parts = []
            data = bytearray()
            for ch in it["chunks"]:
                if ch[0] == "n":
                    n = ch[1]
                    if len(ch) > 3 and ch[3] and 0 <= n <= 255:
                        parts.append("<" + render.expr(spell(n, 2), style) + ">")      # through a symbol defined behind the string
                        labels.add("chunk-forward-symbol")
                    else:
                        parts.append("<" + (f"{n}." if ch[2] else (("-" if n < 0 else "") + f"{abs(n):o}")) + ">")
                    if 0 <= n <= 255:
                        data.append(n)
                    else:
                        errors.add("value-out-of-bounds")
                        labels.add("chunk-reject")
                    nt = True
                    labels.add("chunk-n")
                else:
                    q = ch[1]
                    src = q
                    val = ""
                    for a_src, a_val, a_cls in ch[2]:
                        if a_cls == "bad-escape":
                            errors.add("invalid-escape")
                            labels.add("bad-escape")
                            nt = True
                            src += a_src
                            continue
                        if a_cls == "escape":
                            labels.add("escape")
                            nt = True
                        src += a_src
                        val += a_val
                    src += q
                    parts.append(src)
                    enc = encode_text(val, charset)
                    if enc is None:
                        errors.add("invalid-character")
                        labels.add("unencodable")
                        nt = True
                    else:
                        data += enc
                        if any(ord(c) > 0x7F for c in val):
                            labels.add("non-ascii")
                            nt = True
            if it["d"] == "asciz":
                data.append(0)
            labels.add("dir-" + it["d"])
            body.append({"k": "raw", "text": "\t" + render.directive("." + it["d"], style) + " " + " ".join(parts)})
            emit("raw", bytes(data))
        elif k == "blk":
            n = it["n"]
            body.append({"k": "blk", "d": it["d"], "e": spell(n, it["sym"])})
            labels.add("dir-" + it["d"])
            if n < 0 or n >= 65536:
                errors.add("value-out-of-bounds")
                labels.add("count-reject")
                nt = True
            else:
                emit("raw", b"\0" * (n * (2 if it["d"] == "blkw" else 1)))
                if n:
                    nt = True
                if n in (0, 65535):
                    labels.add("count-boundary")
        elif k == "pad":
            body.append({"k": it["d"]})
            labels.add("dir-" + it["d"])
            emit(it["d"], "counted")
        elif k == "align":
            m = it["m"]
            body.append({"k": "align", "e": spell(m, it["sym"])})
            labels.add("dir-align")
            emit("align", m, "counted")
    body.append({"k": "data", "d": "byte", "es": [("num", 0o377)]})
    emit("raw", b"\xff")
    labels.add("charset-" + charset)
    if not wrap:
        text, _ = render.render_file(pre + body + post, style)
        return text, (None if errors else bytes(image)), errors, sorted(labels), nt
    # the directives stand in a block of their own (a .repeat body, an included file, a second linked file); what follows the
    # block is sensitive to its length
    labels.add("wrap-" + wrap)
    copies = case.get("copies", 1) if wrap == "repeat" else 1
    first_copy = bytes(image[front:])
    for _ in range(copies - 1):
        before = len(image)
        for prim in prims:
            apply(prim)
        if bytes(image[before:]) != first_copy:
            labels.add("repeat-copies-differ")
    if copies > 1:
        labels.add(f"repeat-copies-{copies}")
    tail = "\t.even\n\t.byte 376\n\t.align 4\n\t.byte 375\n"
    if (B + len(image)) % 2:
        image += b"\0"
    image.append(0o376)
    image += b"\0" * ((-(B + len(image))) % 4)
    image.append(0o375)
    if wrap == "repeat":
        text, _ = render.render_file(pre + [{"k": "repeat", "e": ("num", copies), "body": body}] + post, style)
        return text + tail, (None if errors else bytes(image)), errors, sorted(labels), nt
    unit, _ = render.render_file(pre + body + post, style)
    head = (f"\t.link {base:o}\n" if base is not None else "") + f"\t.blkb {front:o}\n"
    if wrap == "include":
        files = ({"main.mac": head + "\t.include \"unit.mac\"\n" + tail, "unit.mac": unit}, ["main.mac"])
    else:
        files = ({"a.mac": head, "b.mac": unit, "c.mac": tail}, ["a.mac", "b.mac", "c.mac"])
    return files, (None if errors else bytes(image)), errors, sorted(labels), nt


def text_of(text):
    if isinstance(text, tuple):
        return "".join(f";;; {n}\n{t}" for n, t in sorted(text[0].items()))
    return text


def judge(case, built=None):
    text, image, errors, labels, nt = built or build(case)
    if isinstance(text, tuple):
        v = {"tree": text[0], "mains": text[1], "charset": case["charset"]}
        text = text_of(text)
    else:
        v = oracle.single(text, charset=case["charset"])
    if errors:
        c = oracle.expect_error(v, sorted(errors), need_all=False)
    else:
        c = oracle.expect_ok(v, image, base=0o1000 if case["base"] is None else case["base"])
    res = oracle.check_expect(c)
    out = []
    for sig, msg in res:
        # name the directive kinds involved so that different root causes get different signatures
        kinds = "+".join(sorted({l for l in labels if l.startswith("dir-")}))
        out.append((f"{sig}:{kinds}" if len(kinds) < 30 else sig, f"{msg}: charset={case['charset']} {text!r}"))
    return out


def shards(tier):
    specs = [{"part": "align"}, {"part": "forms"}]
    k = 16
    per = (20000 if tier == "quick" else 150000) // 3 // k
    for i in range(k):
        specs.append({"part": "random", "i": i, "examples": per})
    return specs


def run_shard(spec, ctx):
    if spec["part"] == "align":
        for m in list(range(1, 65)):
            for r in range(0, max(m, 8)):
                for d in ("align",) + (("even", "odd") if m == 1 else ()):
                    item = {"k": "align", "m": m, "sym": 0} if d == "align" else {"k": "pad", "d": d}
                    case = {"kind": "c06", "residue": 0, "items": [{"k": "blk", "d": "blkb", "n": r, "sym": 0}, item], "charset": "bk",
                            "base": [None, 0, 0o1001, 0o40000][(m + r) % 4], "ints": [0], "rules": []}
                    built = build(case)
                    ctx.case(built[0], True, ["exhaustive-" + d], sample=built[0] if (m, r) in ((8, 3), (64, 1)) else None)
                    for sig, msg in judge(case, built):
                        ctx.fail("align:" + sig, msg, case)
        return

    if spec["part"] == "forms":
        cases = []

        def mk(items, charset="bk", residue=0, base=None):
            cases.append({"kind": "c06", "residue": residue, "items": items, "charset": charset, "base": base, "ints": [0], "rules": []})

        for k in ("word", "dword", "byte"):
            for alias in (False, True):
                for count in range(4):
                    for residue in range(4):
                        mk([{"k": k, "vals": [0o123] * count, "spell": [0] * count, "alias": alias, "keep_odd": True}], residue=residue)
        for charset in CHARSETS:
            for e_src, e_val in ESCAPES:
                for q in "\"'/":
                    for d in ("ascii", "asciz"):
                        mk([{"k": "str", "d": d, "chunks": [["s", q, [["x", "x", "char"], [e_src, e_val, "escape"], ["y", "y", "char"]]]]}], charset)
            for ch in ALLCHARS:
                if ch in "\x00":
                    continue
                mk([{"k": "str", "d": "ascii", "chunks": [["s", '"', [[ch, ch, "char"]]]]}], charset)
                mk([{"k": "str", "d": "asciz", "chunks": [["s", "/", [["A", "A", "char"], [ch, ch, "char"], ["Я" if encode_text("Я", charset) else "z", "Я" if encode_text("Я", charset) else "z", "char"]]]]}], charset)
            for bad in ("\\q", "\\z", "\\8", "\\-"):
                mk([{"k": "str", "d": "ascii", "chunks": [["s", '"', [["a", "a", "char"], [bad, None, "bad-escape"]]]]}], charset)
        for n in range(-2, 258):
            mk([{"k": "str", "d": "ascii", "chunks": [["s", '"', [["a", "a", "char"]]], ["n", n, n % 2 == 0], ["s", "/", [["b", "b", "char"]]]]}])
        for k, bits in (("byte", 8), ("word", 16), ("dword", 32)):
            for v in boundaries(bits):
                for spell in (0, 1, 2):
                    mk([{"k": k, "vals": [5, v], "spell": [0, spell], "alias": False}])
        for d in ("blkb", "blkw"):
            for n in (-1, 0, 1, 2, 65535, 65536):
                for sym in (0, 1, 2):
                    mk([{"k": "blk", "d": d, "n": n, "sym": sym}], residue=1)
        for case in cases:
            built = build(case)
            ctx.case((built[0], case["charset"]), True, ["forms"] + built[3], sample={"text": built[0], "charset": case["charset"]} if len(ctx.samples) < 3 else None)
            for sig, msg in judge(case, built):
                ctx.fail("forms:" + sig, msg, case)
        return

    def check(case):
        built = build(case)
        txt = text_of(built[0])
        ctx.case((txt, case["charset"]), built[4], built[3] + (["reject"] if built[2] else ["accept"]),
                 sample={"text": txt, "charset": case["charset"]} if ctx.evaluations % 37 == 11 else None)
        res = judge(case, built)
        if res:
            return (res[0][0], res[0][1], case)
        return None

    core.hyp_search(ctx, program(), check, spec["examples"], "c06")


def replay(case):
    if case["kind"] == "c06":
        return judge(case)
    return oracle.replay_generic(case)
