"""R3 - reference assembler over the harness' own program model.

program = {"files": {relpath: [stmt, ...]}, "blobs": {relpath: bytes}, "mains": [relpath, ...], "charset": "bk"}

Statements are the dicts rendered by vf/render.py.  The reference is a lazy, memoised evaluator:
sizes, addresses and symbol values are computed on demand with cycle detection, addresses are
affine in the link base (vf/ref/expr.Val), instructions are encoded by R1, expressions by R2.
It predicts either (base, image, symbol tables) or the set of error identifiers, or gives up
("skip") when the program is outside what it can decide (dependency cycles).
Nothing here imports pdpy11.
"""
import posixpath
import struct

from .ref import expr as X
from .ref import pdp11 as P
from .ref import codecs as C


class Cycle(Exception):
    pass


class AsmError(Exception):
    def __init__(self, kind, msg=""):
        super().__init__(f"{kind}: {msg}")
        self.kind = kind


class Result:
    def __init__(self):
        self.kind = None        # ok | error | skip
        self.base = None
        self.image = None
        self.errors = []        # identifiers, in discovery order
        self.why = None
        self.symbols = {}       # file path -> {name: int}
        self.places = []        # (address, size, file, stmt) for every leaf statement, in image order
        self.labels = []        # (file, name, address)
        self.listing = {}       # file path -> [(name as written, value)] for every ordinary symbol


EXT_FORMS = ("idx", "idxd", "imm", "abs", "rel", "reld")


def encode_text(s, charset):
    if charset == "bk":
        out = bytearray()
        for ch in s:
            o = ord(ch)
            if o < 0x7F or 0x80 <= o <= 0x9F:
                out.append(o)
            else:
                try:
                    b = ch.encode("koi8-r")
                except UnicodeEncodeError:
                    return None
                if b[0] < 0xC0:
                    return None
                out += b
        return bytes(out)
    try:
        return s.encode(charset)
    except UnicodeEncodeError:
        return None


class Inst:
    """one compilation of a file (main file or one .include of it)"""

    def __init__(self, path, n):
        self.path = path
        self.n = n
        self.spelling = {}    # lower-case name -> name as written at the definition
        self.private = {}     # lower-case name -> Node of the defining statement
        self.order = []       # names in definition order
        self.extern_all = False


class Node:
    __slots__ = ("stmt", "inst", "lscope", "block", "idx", "in_repeat", "_size", "_addr", "_busy", "children", "_val", "_vbusy", "dead")

    def __init__(self, stmt, inst, lscope, block, idx, in_repeat):
        self.stmt = stmt
        self.inst = inst
        self.lscope = lscope
        self.block = block
        self.idx = idx
        self.in_repeat = in_repeat
        self._size = None
        self._addr = None
        self._busy = False
        self.children = None
        self._val = None
        self._vbusy = False
        self.dead = False


class Block:
    def __init__(self, start_fn):
        self.start_fn = start_fn
        self.nodes = []


class Asm:
    def __init__(self, program):
        self.p = program
        self.charset = program.get("charset", "bk")
        self.codec = "ascii" if self.charset == "bk" else self.charset
        self.errors = []
        self.locals = {}          # (lscope, name) -> Node
        self.externs = {}         # lower name -> Inst
        self.insts = []
        self.times = {}
        self.next_lscope = 0
        self.base_node = None
        self._base = None
        self._base_busy = False
        self.late_checks = []
        self.blocks = []
        self.outputs = []         # make_* directives in order: (kind, args, file path)

    # ---- phase 1: structure -------------------------------------------------
    def err(self, kind):
        if kind not in self.errors:
            self.errors.append(kind)

    def new_lscope(self):
        self.next_lscope += 1
        return self.next_lscope

    def build_file(self, path, start_fn, is_main):
        stmts = self.p["files"][path]
        self.times[path] = self.times.get(path, 0) + 1
        inst = Inst(path, len(self.insts))
        self.insts.append(inst)
        block = Block(start_fn)
        self.build_block(stmts, block, inst, False, is_main)
        return block, inst

    def build_block(self, stmts, block, inst, in_repeat, is_main):
        lscope = self.new_lscope()
        for s in stmts:
            k = s["k"]
            if k == "link" and s.get("form") == "dot" and self.base_node is not None:
                s = dict(s, k="skip")   # '. = X' after the base is known moves the location counter
                k = "skip"
            node = Node(s, inst, lscope, block, len(block.nodes), in_repeat)
            block.nodes.append(node)
            if k == "label":
                if in_repeat:
                    self.err("unexpected-symbol-definition")
                    node.dead = True
                    continue
                name = s["name"].lower()
                if name in inst.private:
                    self.err("duplicate-symbol")
                    node.dead = True
                else:
                    inst.private[name] = node
                    inst.spelling[name] = s["name"]
                    inst.order.append(name)
                    if s.get("export"):
                        self.export(name, inst)
                    if inst.extern_all:
                        self.export(name, inst)
                lscope = self.new_lscope()
            elif k == "local":
                if in_repeat:
                    self.err("unexpected-symbol-definition")
                    node.dead = True
                    continue
                key = (lscope, s["name"].lower())
                if key in self.locals:
                    self.err("duplicate-symbol")
                    node.dead = True
                else:
                    self.locals[key] = node
            elif k == "assign":
                if in_repeat:
                    self.err("unexpected-symbol-definition")
                    node.dead = True
                    continue
                name = s["name"].lower()
                if name in inst.private:
                    self.err("duplicate-symbol")
                    node.dead = True
                else:
                    inst.private[name] = node
                    inst.spelling[name] = s["name"]
                    inst.order.append(name)
                    if s.get("export"):
                        self.export(name, inst)
                    if inst.extern_all:
                        self.export(name, inst)
            elif k == "extern":
                if s["names"] == "all":
                    for name in list(inst.order):
                        self.export(name, inst)
                    inst.extern_all = True
                else:
                    for name in s["names"]:
                        self.export(name.lower(), inst)
            elif k == "link" or (k == "skip" and self.base_node is None and is_main and not in_repeat):
                if not is_main:
                    raise Cycle("link base inside an included file is outside the model")
                if k == "link" and self.base_node is not None:
                    self.err("address-conflict")
                    node.dead = True
                elif self.base_node is None:
                    self.base_node = node
            elif k == "include":
                path = posixpath.normpath(posixpath.join(posixpath.dirname(inst.path), s["path"]))
                if path not in self.p["files"]:
                    self.err("io-error")
                    node.dead = True
                else:
                    sub, _ = self.build_file(path, (lambda n=node: self.addr(n)), False)
                    node.children = sub
            elif k == "end":
                break
            elif k == "once":
                if self.times[inst.path] > 1:
                    break
            elif k == "make":
                self.outputs.append((s["d"], s.get("args", []), inst.path))
        return block

    def export(self, name, inst):
        if name in self.externs:
            self.err("duplicate-symbol")
        else:
            self.externs[name] = inst

    # ---- phase 2: lazy evaluation ----------------------------------------------
    def base(self):
        if self._base is not None:
            return self._base
        if self.base_node is None:
            self._base = 0o1000
            return self._base
        if self._base_busy:
            raise Cycle("link base depends on itself")
        self._base_busy = True
        try:
            e = self.base_node.stmt["e"]
            v = X.ev(e, self.env(self.base_node, for_base=True))
            if v.k != 0:
                raise AsmError("recursive-definition")
            c = v.c
            if c >= (1 << 16) or c <= -(1 << 16):
                raise AsmError("value-out-of-bounds")
            if c < 0:
                raise Cycle("negative link base: the statement does not say what it means")
            self._base = c
        finally:
            self._base_busy = False
        return self._base

    def force(self, v):
        if v.k == 0:
            return v.c
        return v.k * self.base() + v.c

    def addr(self, node):
        """address of a statement as Val"""
        if node._addr is not None:
            return node._addr
        b = node.block
        # compute prefix addresses iteratively for the whole block up to node
        start = None
        i = node.idx
        j = i
        while j > 0 and b.nodes[j]._addr is None:
            j -= 1
        if b.nodes[j]._addr is None:
            b.nodes[0]._addr = b.start_fn()
            j = 0
        cur = b.nodes[j]._addr
        for t in range(j, i):
            n = b.nodes[t]
            cur = X.Val(cur.k, cur.c + self.size(n))
            b.nodes[t + 1]._addr = cur
        return node._addr

    def env(self, node, for_base=False):
        asm = self

        class E(X.Env):
            charset = asm.codec

            def sym(self, name):
                return asm.lookup(node, name)

            def loc(self, name):
                return asm.lookup_local(node, name)

            def dot(self):
                return asm.addr(node)

            def force(self, v):
                return asm.force(v)
        return E()

    def lookup_local(self, node, name):
        d = self.locals.get((node.lscope, name.lower().rstrip(":")))
        if d is None:
            raise AsmError("undefined-symbol", name)
        return self.addr(d)

    def lookup(self, node, name):
        lname = name.lower()
        if lname[0].isdigit():
            d = self.locals.get((node.lscope, lname))
            if d is not None:
                return self.addr(d)
        d = node.inst.private.get(lname)
        if d is None:
            inst = self.externs.get(lname)
            if inst is not None:
                d = inst.private.get(lname)
        if d is None:
            raise AsmError("undefined-symbol", name)
        return self.value(d)

    def value(self, d):
        """value (Val) of the symbol defined by node d"""
        if d.stmt["k"] in ("label", "local"):
            return self.addr(d)
        if d._val is not None:
            return d._val
        if d._vbusy:
            raise Cycle("definition cycle")
        d._vbusy = True
        try:
            d._val = X.ev(d.stmt["e"], self.env(d))
        finally:
            d._vbusy = False
        return d._val

    def ev_int(self, node, e):
        return self.force(X.ev(e, self.env(node)))

    def size(self, node):
        if node._size is not None:
            return node._size
        if node._busy:
            raise Cycle("size cycle")
        node._busy = True
        try:
            try:
                node._size = self._size(node)
            except (AsmError, X.EvalError) as ex:
                self.err(ex.kind)
                node._size = 0
                node.dead = True
        finally:
            node._busy = False
        return node._size

    def repeat_children(self, node):
        if node.children is None:
            s = node.stmt
            n = self.ev_int(node, s["e"])
            if n < 0:
                raise AsmError("value-out-of-bounds")
            copies = []
            prev_end = lambda: self.addr(node)
            for i in range(n):
                blk = Block(prev_end)
                self.build_block(s["body"], blk, node.inst, True, False)
                copies.append(blk)
                prev_end = (lambda b=blk: self.block_end(b))
            node.children = copies
        return node.children

    def block_end(self, blk):
        if not blk.nodes:
            return blk.start_fn()
        last = blk.nodes[-1]
        a = self.addr(last)
        return X.Val(a.k, a.c + self.size(last))

    def block_size(self, blk):
        return sum(self.size(n) for n in blk.nodes)

    def _size(self, node):
        s = node.stmt
        k = s["k"]
        if node.dead:
            return 0
        if k == "insn":
            return 2 + 2 * sum(1 for o in s["ops"] if o[0] in EXT_FORMS)
        if k == "data":
            unit = {"byte": 1, "word": 2, "dword": 4}[s["d"]]
            return unit * max(len(s["es"]), 1)
        if k == "words":
            return 2 * len(s["es"])
        if k == "str":
            return len(self.str_bytes(node))
        if k == "blk":
            n = self.ev_int(node, s["e"])
            if not 0 <= n < 65536:
                raise AsmError("value-out-of-bounds")
            return n * (2 if s["d"] == "blkw" else 1)
        if k == "even":
            return self.force(self.addr(node)) % 2
        if k == "odd":
            return 1 - self.force(self.addr(node)) % 2
        if k == "align":
            m = self.ev_int(node, s["e"])
            if m < 0:
                raise AsmError("value-out-of-bounds")
            if m == 0:
                raise Cycle(".align 0 is outside the property's domain")
            return (-self.force(self.addr(node))) % m
        if k == "skip":
            if node is self.base_node:
                return 0
            nv = X.ev(s["e"], self.env(node))
            ov = self.addr(node)
            if nv.k == ov.k and nv.k != 0 and self._base is None:
                # the gap is a difference of two addresses: the base cancels out of it, so it is known before the base is
                # (a skip between the labels of '.link K + end - start'); the target's own range is checked once the base is
                if nv.c < ov.c:
                    raise AsmError("value-out-of-bounds")
                self.late_checks.append((nv, node))
                return nv.c - ov.c
            new = self.force(nv)
            if not 0 <= new < (1 << 16):
                raise AsmError("value-out-of-bounds")     # a negative target lies behind every address: a backward move
            old = self.force(ov)
            if new < old:
                raise AsmError("value-out-of-bounds")
            return new - old
        if k == "repeat":
            return sum(self.block_size(b) for b in self.repeat_children(node))
        if k == "include":
            return self.block_size(node.children)
        if k == "insert":
            path = posixpath.normpath(posixpath.join(posixpath.dirname(node.inst.path), s["path"]))
            if path not in self.p.get("blobs", {}):
                raise AsmError("io-error")
            return len(self.p["blobs"][path])
        return 0

    def str_bytes(self, node):
        s = node.stmt
        if s["d"] == "rad50":
            codes = []
            for ch in s["chunks"]:
                if ch[0] == "n":
                    n = self.ev_int(node, ch[1])
                    if not 0 <= n < 40:
                        raise AsmError("value-out-of-bounds")
                    codes.append(n)
                else:
                    for c in ch[1]:
                        if c.upper() not in C.RAD50_INDEX:
                            raise AsmError("invalid-character")
                        codes.append(C.RAD50_INDEX[c.upper()])
            return C.words_le(C.rad50_pack_codes(codes))
        out = bytearray()
        for ch in s["chunks"]:
            if ch[0] == "n":
                n = self.ev_int(node, ch[1])
                if not 0 <= n <= 255:
                    raise AsmError("value-out-of-bounds")
                out.append(n)
            else:
                b = encode_text(ch[1], self.charset)
                if b is None:
                    raise AsmError("invalid-character")
                out += b
        if s["d"] == "asciz":
            out.append(0)
        return bytes(out)

    # ---- emission ---------------------------------------------------------------
    def word(self, node, e, bits=16):
        v = self.ev_int(node, e)
        if not -(1 << bits) < v < (1 << bits):
            raise AsmError("value-out-of-bounds")
        return v % (1 << bits)

    def operand_values(self, node, ops):
        """model operands (expressions) -> R1 operands (integers)"""
        res = []
        for o in ops:
            k = o[0]
            if k in ("reg", "ind", "inc", "incd", "dec", "decd", "idx", "idxd") and isinstance(o[1], (tuple, list)):
                n = self.ev_int(node, o[1])          # '%expr': a computed register number
                if not 0 <= n <= 7:
                    raise AsmError("value-out-of-bounds")
                o = (k, n) + tuple(o[2:])
            if k in ("idx", "idxd"):
                res.append((k, o[1], self.ev_int(node, o[2])))
            elif k in ("imm", "abs", "num", "tgt"):
                res.append((k, self.ev_int(node, o[1])))
            elif k in ("rel", "reld"):
                res.append((k, self.ev_int(node, o[1]) & 0xFFFF))
            else:
                res.append(tuple(o))
        return res

    def emit(self, node, out, places):
        try:
            self._emit(node, out, places)
        except (AsmError, X.EvalError, P.EncodeError) as ex:
            self.err(ex.kind)

    def _emit(self, node, out, places):
        s = node.stmt
        k = s["k"]
        size = self.size(node)
        if node.dead:
            return
        a = self.force(self.addr(node))
        start = len(out)
        if k == "insn":
            words = P.encode(s["mn"], self.operand_values(node, s["ops"]), a)
            out += C.words_le(words)
        elif k == "data":
            unit = {"byte": 1, "word": 2, "dword": 4}[s["d"]]
            if unit > 1 and a % 2:
                # which complaint comes first is not specified: note the operands' own errors next to this one
                for e in s["es"]:
                    try:
                        self.word(node, e, 8 * unit)
                    except (AsmError, X.EvalError) as ex:
                        self.err(ex.kind)
                raise AsmError("odd-address")
            vals = [self.word(node, e, 8 * unit) for e in s["es"]] or [0]
            for v in vals:
                if unit == 1:
                    out.append(v)
                elif unit == 2:
                    out += struct.pack("<H", v)
                else:
                    out += struct.pack("<HH", v >> 16, v & 0xFFFF)
        elif k == "words":
            if a % 2:
                for e in s["es"]:
                    try:
                        self.word(node, e)
                    except (AsmError, X.EvalError) as ex:
                        self.err(ex.kind)
                raise AsmError("odd-address")
            for e in s["es"]:
                out += struct.pack("<H", self.word(node, e))
        elif k == "str":
            out += self.str_bytes(node)
        elif k in ("blk", "even", "odd", "align", "skip"):
            out += b"\0" * size
        elif k == "repeat":
            for b in self.repeat_children(node):
                for n in b.nodes:
                    self.emit(n, out, places)
            return
        elif k == "include":
            for n in node.children.nodes:
                self.emit(n, out, places)
            return
        elif k == "insert":
            path = posixpath.normpath(posixpath.join(posixpath.dirname(node.inst.path), s["path"]))
            out += self.p["blobs"][path]
        if len(out) - start != size:
            raise AssertionError(f"model inconsistency: {k} sized {size} emitted {len(out) - start}")
        places.append((a, size, node.inst.path, s))

    # ---- driver --------------------------------------------------------------------
    def run(self):
        r = Result()
        try:
            prev = None
            tops = []
            for path in self.p["mains"]:
                if prev is None:
                    start = lambda: X.Val(1, 0)
                else:
                    start = (lambda b=prev: self.block_end(b))
                blk, inst = self.build_file(path, start, True)
                tops.append(blk)
                prev = blk
            try:
                self.base()
            except (AsmError, X.EvalError) as ex:
                self.err(ex.kind)
                self._base = 0
            out = bytearray()
            places = []
            for blk in tops:
                for n in blk.nodes:
                    self.emit(n, out, places)
            for nv, node in self.late_checks:
                if not 0 <= self.force(nv) < (1 << 16):
                    raise Cycle("target of a gap whose size was needed for the base lies outside 16 bits")
            # every symbol is evaluated, used or not
            for inst in self.insts:
                table = {}
                for name in inst.order:
                    d = inst.private[name]
                    try:
                        v = self.force(self.value(d))
                        table[name] = v
                        if d.stmt["k"] == "label":
                            r.labels.append((inst.path, name, v))
                    except (AsmError, X.EvalError) as ex:
                        self.err(ex.kind)
                r.symbols.setdefault(inst.path, {}).update(table)
                r.listing.setdefault(inst.path, []).extend((inst.spelling[n], v) for n, v in table.items())
        except Cycle as ex:
            r.kind = "skip"
            r.why = str(ex)
            return r
        except RecursionError:
            r.kind = "skip"
            r.why = "recursion depth of the reference"
            return r
        r.errors = list(self.errors)
        if self.errors:
            r.kind = "error"
            return r
        r.kind = "ok"
        r.base = self._base
        r.image = bytes(out)
        r.places = places
        r.outputs = self.outputs
        return r


def assemble(program):
    return Asm(program).run()
