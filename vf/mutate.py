"""Fault catalogue (DESIGN appendix A) and token/character level mutators.

A fault is a small piece of source text with one marked position: [[ ... ]] surrounds the text at whose START the first
diagnostic with the expected identifier must point.  `pre` lines are placed somewhere before, `post` lines somewhere after.
Severity: E error, C critical (parse stops), W warning (never changes status or bytes).
"""

OPEN, CLOSE = "", ""


class Fault:
    def __init__(self, kind, ident, sev, text, pre=(), post=(), where="any", warn_flag=None, phase="compile"):
        self.kind = kind
        self.ident = ident
        self.sev = sev
        self.text = text
        self.pre = list(pre)
        self.post = list(post)
        self.where = where          # any | top (not inside .repeat) | first (must be the first statement of the main file) | cross-file (top; pre lines in another file)
        self.warn_flag = warn_flag  # -W name needed to see the warning (None: enabled by default)
        self.phase = phase

    def render(self, uid):
        """-> (pre lines, fault line with OPEN/CLOSE markers, post lines); the section sign is replaced by a unique suffix"""
        sub = lambda s: s.replace("§", str(uid))
        line = sub(self.text).replace("[[", OPEN).replace("]]", CLOSE)
        return [sub(p) for p in self.pre], line, [sub(p) for p in self.post]


E, C, W = "E", "C", "W"

FAULTS = [
    Fault("undefined-symbol", "undefined-symbol", E, "\t.word 1, [[nosuch§]]+1", phase="link"),
    Fault("undefined-in-insn", "undefined-symbol", E, "\tmov #[[missing§]], r0", phase="link"),
    Fault("byte-out-of-range", "value-out-of-bounds", E, "\t.byte 1, [[400]]\n\t.even"),
    Fault("word-out-of-range", "value-out-of-bounds", E, "\t.word [[200000]]"),
    Fault("dword-out-of-range", "value-out-of-bounds", E, "\t.dword [[40000000000]]"),
    Fault("blkb-negative", "value-out-of-bounds", E, "\t.blkb [[nb§]]", post=["nb§ = 0 - 2"], where="top"),
    Fault("blkw-too-big", "value-out-of-bounds", E, "\t.blkw [[200000]]"),
    Fault("string-code-out-of-range", "value-out-of-bounds", E, "\t.ascii /ab/ <[[400]]>"),
    Fault("emt-out-of-range", "value-out-of-bounds", E, "\t[[emt]] 400"),
    Fault("mark-negative", "value-out-of-bounds", E, "\t[[mark]] -1"),
    Fault("spl-out-of-range", "value-out-of-bounds", E, "\t[[spl]] 10"),
    Fault("register-index", "value-out-of-bounds", E, "\tclr %[[10]]"),
    Fault("immediate-out-of-range", "value-out-of-bounds", E, "\tmov #[[200000]], r0"),
    Fault("unknown-insn", "unknown-insn", E, "\t[[frob§]] r1"),
    Fault("unknown-meta", "unknown-insn", E, "\t[[.frob§]] 1"),
    Fault("too-few-operands", "wrong-operands", E, "\t[[mov]] r1"),
    Fault("too-many-operands", "wrong-operands", E, "\t[[clr]] r1, r2"),
    Fault("meta-extra-operand", "wrong-meta-operands", E, "\t[[.even]] 1"),
    Fault("repeat-no-block", "wrong-meta-operands", E, "\t[[.repeat]] 2"),
    Fault("duplicate-label", "duplicate-symbol", E, "[[dup§]]:\tnop", pre=["dup§:\tnop"], where="top"),
    Fault("duplicate-constant", "duplicate-symbol", E, "[[dc§]] = 2", pre=["dc§ = 1"], where="top"),
    Fault("duplicate-label-constant", "duplicate-symbol", E, "[[dl§]] = 2", pre=["dl§:\tnop"], where="top"),
    Fault("duplicate-local", "duplicate-symbol", E, "[[5$]]:\tnop", pre=["scope§:", "5$:\tnop"], where="adjacent"),
    Fault("duplicate-export", "duplicate-symbol", E, "\t.extern [[ex§]]", pre=["ex§::\tnop"], where="top"),
    # cross-file: C17 puts the `pre` lines into another file that is assembled earlier (two spans in two files)
    Fault("duplicate-export-other-file", "duplicate-symbol", E, "[[xf§]]::\tnop", pre=["xf§::\tnop"], where="cross-file"),
    Fault("duplicate-export-constant-other-file", "duplicate-symbol", E, "[[xc§]] == 2", pre=["xc§ == 1"], where="cross-file"),
    Fault("branch-too-far", "branch-out-of-bounds", E, "\t[[br]] .+1000"),
    Fault("sob-forward", "branch-out-of-bounds", E, "\t[[sob]] r1, .+4"),
    Fault("odd-branch", "odd-branch", E, "\t[[bne]] .+3"),
    Fault("digit-89", "invalid-number", E, "\t.word 1, [[189]]"),
    Fault("division-by-zero", "arithmetic-error", E, "\t.word [[5]]/0"),
    Fault("modulo-by-zero", "arithmetic-error", E, "\t.word 1 + [[7]] % 0"),
    Fault("negative-shift", "arithmetic-error", E, "\t.word [[1]] << -1"),
    # faults in definitions nothing refers to (they are evaluated at the very end of the build)
    Fault("unused-division-by-zero", "arithmetic-error", E, "ua§ = 1 + [[10]]/uy§", pre=["uy§ = uf§"], post=["uf§ = 0"], where="top"),
    Fault("unused-undefined", "undefined-symbol", E, "uu§ = 1 + [[nosuch§]]", where="top", phase="link"),
    Fault("unused-chain-division", "arithmetic-error", E, "uc§ = [[10]]/0", pre=["ub§ = uc§ + 1"], where="top"),
    # a fault attributed to the whole displacement expression of an indexed operand (pdpy11 regroups 'a op b(rN)' into '(a op b)(rN)')
    Fault("index-division-by-zero", "arithmetic-error", E, "\tclr [[ix§]]/0(r1)", pre=["ix§ = 4"], where="top"),
    Fault("index-division-second-operand", "arithmetic-error", E, "\tmov r0, [[iy§]]/0(r1)", pre=["iy§ = 4"], where="top"),
    Fault("index-sum-out-of-range", "value-out-of-bounds", E, "\tclr [[100000]]+100000(r2)"),
    Fault("index-negative-shift", "arithmetic-error", E, "\tclr @[[4]] << -1(r3)"),
    Fault("index-negated-out-of-range", "value-out-of-bounds", E, "\tclr [[-]]ib§(r5)", pre=["ib§ = 200000"], where="top"),
    # chains: the diagnostic is placed at an infix token whose left operand was itself folded from several terms
    Fault("division-chain", "arithmetic-error", E, "\t.word [[6]] * 2 / 0"),
    Fault("division-chain-sub", "arithmetic-error", E, "\t.word [[10]] / 2 / 0"),
    Fault("byte-chain-out-of-range", "value-out-of-bounds", E, "\t.byte 1, [[100]] * 2 + 300\n\t.even"),
    Fault("word-chain-out-of-range", "value-out-of-bounds", E, "\t.word [[177777]] + 1 + 1"),
    Fault("prefix-chain-out-of-range", "value-out-of-bounds", E, "\t.byte [[-]]pc§ + 1000\n\t.even", pre=["pc§ = 1"], where="top"),
    Fault("immediate-chain-out-of-range", "value-out-of-bounds", E, "\tmov #[[100000]] + 50000 + 50000, r0"),
    Fault("register-as-value", "unexpected-register", E, "\t.word [[r1]]"),
    Fault("register-in-expression", "unexpected-register", E, "\tmov #1+[[sp]], r0"),
    Fault("non-register-operand", "invalid-addressing", E, "\t[[jsr]] 123, 57"),
    Fault("fp-needs-accumulator", "invalid-addressing", E, "\t[[ldf]] (r0), r1"),
    Fault("postinc-of-value", "unexpected-value", E, "\tclr (1)[[+]]"),
    Fault("double-deferred", "unexpected-value", E, "\tclr @[[@]]x§", pre=["x§:\tnop"], where="top"),
    Fault("dangling-infix", "unexpected-value", E, "\t.word 1 [[+]]\n"),
    Fault("unencodable-string", "invalid-character", E, "\t[[.ascii]] /aΩb/\n\t.even"),
    Fault("unencodable-char", "invalid-character", E, "\tmov #[['Ω]], r0"),
    Fault("unknown-escape", "invalid-escape", E, "\t.ascii /a[[\\]]qb/\n\t.even", phase="parse"),
    Fault("rad50-literal-too-long", "invalid-string", E, "\t.word [[^RABCD]]", phase="parse"),
    Fault("rad50-bad-char", "invalid-character", E, "\t.rad50 [[/A#/]]"),
    Fault("rad50-code", "value-out-of-bounds", E, "\t.rad50 [[<50>]]"),
    Fault("reserved-label", "reserved-name", E, "[[r1]]:\tnop", where="top", phase="parse"),
    Fault("reserved-constant", "reserved-name", E, "[[sp]] = 1", where="top", phase="parse"),
    Fault("extern-local", "invalid-extern", E, "[[1§::]]\tnop", where="top", phase="parse"),
    Fault("user-error", "user-error", E, "\t[[.error]] boom"),
    Fault("hash-in-directive", "excess-hash", E, "\t.word [[#1]]"),
    Fault("label-as-mnemonic", "meta-type-mismatch", E, "\t[[lm§]]\n", pre=["lm§:\tnop"], where="top"),
    Fault("constant-as-mnemonic", "meta-type-mismatch", E, "\t[[cm§]] 2", pre=["cm§ = 1"], where="top"),
    Fault("extern-non-symbol", "meta-type-mismatch", E, "\t.extern [[1+2]]"),
    Fault("second-link", "address-conflict", E, "\t[[.link]] 3000", pre=["\t.link 2000"], where="top-after-link"),
    # a backward '. =' whose target is only known further down: reported when everything else has been laid out
    Fault("backward-skip-late", "value-out-of-bounds", E, "\tnop\n\t[[.]] = bs§", pre=["\t.link 2000"], post=["bs§ = 600"], where="top-after-link"),
    Fault("missing-include", "io-error", E, "\t[[.include]] /nope§.mac/"),
    Fault("missing-insert", "io-error", E, "\t[[insert_file]] \"nope§.bin\""),
    Fault("word-at-odd-address", "odd-address", E, "\t[[.word]] 2\n\t.even", pre=["\t.even\n\t.byte 1"], where="adjacent"),
    Fault("words-at-odd-address", "odd-address", E, "\t[[2]], 3\n\t.even", pre=["\t.even\n\t.byte 1"], where="adjacent"),
    Fault("label-in-repeat", "unexpected-symbol-definition", E, "\t.repeat 2 { [[lr§:]] nop }", where="top"),
    Fault("constant-in-repeat", "unexpected-symbol-definition", E, "\t.repeat 2 {\n\t\t[[cr§ = 1]]\n\t\tnop\n\t}", where="top"),
    Fault("no-blank-after-mnemonic", "missing-whitespace", E, "\tmov[[#]]1, r0", phase="parse"),
    Fault("r6-as-accumulator", "implicit-accumulator", E, "\tldf [[r6]], ac0"),
    Fault("external-dot", "invalid-assignment", E, "\tnop\n[[.]] == 3000", where="top", phase="parse"),
    Fault("too-long-char-literal", "too-long-string", E, "\tmov #[[\"яя]], r0", where="utf8"),
    Fault("extern-undefined-used", "undefined-symbol", E, "\tmov [[eu§]], r0", pre=["\t.extern eu§"], where="top", phase="link"),
    Fault("extern-undefined-branch", "undefined-symbol", E, "\tbr [[ev§]]", post=["\t.extern ev§"], where="top", phase="link"),
    Fault("negative-89", "invalid-number", E, "\t.word -[[89]]", phase="parse"),
    Fault("include-directory", "io-error", E, "\t[[.include]] /./"),
    Fault("insert-directory", "io-error", E, "\t[[insert_file]] \".\""),
    Fault("tape-name-too-long", "too-long-string", E, "\t[[make_wav]] \"t§.wav\", \"seventeen letters!\""),
    Fault("dangling-minus", "unexpected-value", E, "\t.word 1 [[-]]\n"),
    Fault("percent-as-value", "unexpected-value", E, "\t.word [[%]]1"),
    Fault("call-as-value", "unexpected-value", E, "\t.word [[1]](2)"),
    Fault("hash-as-value", "unexpected-value", E, "\tmov #[[#]]2, r0"),
    # criticals: parsing stops here
    Fault("unterminated-string", "unterminated-string", C, "\t.ascii [[/]]abc", phase="parse"),
    Fault("unterminated-char", "unterminated-string", C, "\tmov #[[']]\n", phase="parse"),
    Fault("unclosed-bracket", "invalid-expression", C, "\t.word (1 [[,]] 2", phase="parse"),
    Fault("unknown-caret-prefix", "invalid-expression", C, "\t.word [[^Q]]1", phase="parse"),
    Fault("no-digits-after-caret-x", "invalid-number", C, "\t.word [[^X]]zz", phase="parse"),
    Fault("unparseable-statement", "invalid-insn", C, "[[)]]", phase="parse"),
    Fault("comma-after-mnemonic", "invalid-insn", C, "\tmov [[,]] r1", phase="parse"),
    Fault("nothing-after-comma", "invalid-operand", C, "\tmov r1[[,]] )", phase="parse"),
    Fault("nothing-after-second-comma", "invalid-operand", C, "\tmov #1, r0[[,]] )", phase="parse"),
    Fault("nothing-after-fifth-comma", "invalid-operand", C, "\t.word 1, 2,\t3, 4, 5[[,]]\t; and then\n\t)", phase="parse"),
    Fault("nothing-after-equals", "invalid-assignment", C, "xq§ [[=]] )", where="top", phase="parse"),
    Fault("prefix-after-infix", "invalid-expression", C, "\t.word 2 *[[]]~3", phase="parse"),
    # a dangling infix operator: blanks, tabs, a comment and a line break between the operator and the token in the operand's place
    Fault("dangling-operator", "invalid-expression", C, "\t.word 3 * [[,]] 5", phase="parse"),
    Fault("dangling-operator-tab", "invalid-expression", C, "\tmov #<1 &\t[[>]], r0", phase="parse"),
    Fault("dangling-operator-bracket", "invalid-expression", C, "dv§ = (2 /  [[)]]", phase="parse", where="top"),
    Fault("dangling-operator-next-line", "invalid-expression", C, "\t.word 3 *\t; comment\n\t\t[[,]] 5", phase="parse"),
]

WARNINGS = [
    Fault("byte-without-operand", "implicit-operand", W, "\t[[.byte]]\n\t.even"),
    Fault("word-without-operand", "implicit-operand", W, "\t[[.word]]\n"),
    Fault("list-directive", "not-implemented", W, "\t[[.list]]\n"),
    Fault("title-directive", "not-implemented", W, "\t[[.title]] some text here"),
    Fault("ident-directive", "not-implemented", W, "\t[[.ident]] /v1/"),
    Fault("page-directive", "not-implemented", W, "\t[[.page]]\n"),
    Fault("sbttl-directive", "not-implemented", W, "\t[[.sbttl]] sub title text"),
    Fault("nlist-directive", "not-implemented", W, "\t[[.nlist]]\n"),
    Fault("label-fixup", "label-fixup", W, "\t[[br]] 1 + 2", pre=["sc§:", "1:\tnop"], where="adjacent"),
    Fault("hash-in-emt", "excess-hash", W, "\temt [[#1]]"),
    Fault("mnemonic-like-label", "suspicious-name", W, "[[mov:]]\tnop", where="top", warn_flag="suspicious-name"),
    Fault("closing-quote", "excess-quote", W, "\tmov #[['a']], r0", warn_flag="excess-quote"),
    Fault("two-insns-one-line", "missing-newline", W, "\t[[nop]] nop", warn_flag="missing-newline"),
    Fault("directive-without-dot", "meta-typo", W, "\t[[blkb]] 2", warn_flag="meta-typo"),
    Fault("legacy-deferred", "legacy-deferred", W, "\tclr [[@r0]]", warn_flag="legacy-deferred"),
    Fault("legacy-deferred-percent", "legacy-deferred", W, "\tmov [[@%1]], r0", warn_flag="legacy-deferred"),
    Fault("implicit-index", "implicit-index", W, "\tclr [[@(r0)]]", warn_flag="implicit-index"),
    Fault("register-as-accumulator", "implicit-accumulator", W, "\tldf [[r1]], ac0", warn_flag="implicit-accumulator"),
]

BY_KIND = {f.kind: f for f in FAULTS + WARNINGS}


def strip(text):
    """remove OPEN/CLOSE markers -> (text, offset of the marked start or None)"""
    i = text.find(OPEN)
    if i < 0:
        return text, None
    j = text.find(CLOSE)
    clean = text[:i] + text[i + 1:j] + text[j + 1:]
    return clean, i
