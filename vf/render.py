"""Model AST -> pdpy11 source text under a 'style' (a stream of spelling choices).

The style never changes meaning: every rule is one of the rewrites listed in property C10.
Style(ints, rules): pick(rule, n) returns 0 (canonical spelling) unless `rule` is enabled.
Marks: ("mark", tag, expr) nodes and stmt["mark"] record (line, column, offset) of the rendered text.
"""
from .ref import expr as X
from .ref import pdp11

RULES = ["case-mnemonic", "case-directive", "case-register", "case-symbol", "case-radix", "case-hexdigit",
         "blanks", "blank-lines", "comments", "radix", "grouping", "redundant-group", "reg-percent", "reg-sp-pc",
         "synonym", "implicit-word", "legacy-deferred", "directive-alias", "or-bang", "inv-caret", "quote", "label-own-line"]

MARK_OPEN = ""
MARK_CLOSE = ""


class Style:
    def __init__(self, ints=(0,), rules=()):
        self.ints = list(ints) or [0]
        self.rules = set(rules)
        self.i = 0
        self.used = set()

    def pick(self, rule, n):
        if rule not in self.rules or n <= 1:
            return 0
        v = self.ints[self.i % len(self.ints)] % n
        self.i += 1
        if v:
            self.used.add(rule)
        return v

    def case(self, rule, text):
        c = self.pick(rule, 3)
        if c == 0:
            return text
        if c == 1:
            return text.upper()
        out = []
        for ch in text:
            out.append(ch.upper() if self.pick(rule, 2) else ch)
        return "".join(out)


PLAIN = Style()

SYNONYMS = {}
for _mn, (_fmt, _base, _canon) in pdp11.TABLE.items():
    SYNONYMS.setdefault(_canon, []).append(_mn)
SYN_OF = {mn: SYNONYMS[canon] for canon, lst in SYNONYMS.items() for mn in lst}
SYN_OF["ret"] = ["ret", "return"]
SYN_OF["return"] = ["return", "ret"]

CARET_DELIMS = ["/", "|", ":", "?", "\\", "="]


def spell_number(v, st, ctx="any"):
    """v >= 0. ctx 'branch': only spellings that pdpy11's branch fix-up accepts (see render notes)."""
    if ctx == "octal":
        choices = ["oct"]
    else:
        choices = ["oct", "dec.", "0x", "0o", "0b", "^X", "^O", "^B", "^D"]
    c = choices[st.pick("radix", len(choices))]
    if c == "oct":
        return "%o" % v
    if c == "dec.":
        return "%d." % v
    if c == "^D":
        return ("^d" if st.pick("case-radix", 2) else "^D") + "%d" % v
    if c in ("0x", "^X"):
        digits = "%x" % v
        if st.pick("case-hexdigit", 2):
            digits = digits.upper()
        pre = "0x" if c == "0x" else "^X"
        if st.pick("case-radix", 2):
            pre = pre.swapcase()
        return pre + digits
    if c in ("0o", "^O"):
        pre = "0o" if c == "0o" else "^O"
        if st.pick("case-radix", 2):
            pre = pre.swapcase()
        return pre + "%o" % v
    pre = "0b" if c == "0b" else "^B"
    if st.pick("case-radix", 2):
        pre = pre.swapcase()
    return pre + bin(v)[2:]


def group(text, st, force_paren=False):
    c = 0 if force_paren else st.pick("grouping", 3)
    if c == 0:
        return "(" + text + ")"
    if c == 1:
        return "<" + text + " >" if text.endswith(">") else "<" + text + ">"
    for d in CARET_DELIMS[st.pick("grouping", len(CARET_DELIMS)):] + CARET_DELIMS:
        if d not in text and not (d == "=" and False):
            return "^" + d + text + d
    return "(" + text + ")"


def _sp(st):
    c = st.pick("blanks", 4)
    return [" ", "\t", "  ", " \t "][c]


def _osp(st, default=" "):
    """optional blank"""
    c = st.pick("blanks", 4)
    return [default, "\t", "  ", default][c]


def expr(e, st=PLAIN, numctx="any", top=True, lead=False):
    """render expression; returns text.  lead: the text starts right after an infix operator, where pdpy11
    does not accept a prefix operator (it must be bracketed)."""
    t = e[0]
    if t == "mark":
        return MARK_OPEN + e[1] + MARK_CLOSE + expr(e[2], st, numctx, top, lead) + MARK_OPEN + "/" + e[1] + MARK_CLOSE
    if t == "raw":
        return e[1]
    if t == "num":
        v = e[1]
        body = ("-" if v < 0 else "") + spell_number(abs(v), st, numctx)
        return body
    if t == "bad8":
        return e[1]
    if t == "sym":
        return st.case("case-symbol", e[1])
    if t == "loc":
        return e[1]
    if t == "dot":
        return "."
    if t == "chr":
        return "'" + _charlit(e[1])
    if t == "chr2":
        return '"' + _charlit(e[1])
    if t == "r50":
        return ("^r" if st.pick("case-radix", 2) else "^R") + st.case("case-symbol", e[1])
    if t == "un":
        op = e[1]
        if op == "~" and st.pick("inv-caret", 2):
            op = "^c" if st.pick("case-radix", 2) else "^C"
        a = e[2]
        inner = expr(a, st, numctx, False)
        if a[0] == "bin" or (a[0] == "mark" and _strip(a)[0] == "bin"):
            inner = group(inner, st)
        elif st.pick("redundant-group", 4) == 1:
            inner = group(inner, st)
        if op.lower() == "^c" and not inner[0] in "(<":
            res = op + " " + inner
        else:
            res = op + inner
        return group(res, st) if lead else res
    if t == "bin":
        op = e[1]
        if op == "|" and st.pick("or-bang", 2):
            op = "!"
        elif op == "!" and st.pick("or-bang", 2):
            op = "|"
        p = X.PREC[e[1]]
        a, b = e[2], e[3]
        sa, sb = _strip(a), _strip(b)
        wrap_a = (sa[0] == "bin" and X.PREC[sa[1]] > p) or st.pick("redundant-group", 5) == 1
        wrap_b = (sb[0] == "bin" and X.PREC[sb[1]] >= p) or st.pick("redundant-group", 5) == 1
        ta = expr(a, st, numctx, False, lead and not wrap_a)
        # a prefix operator directly after an infix operator is a syntax error in pdpy11: it gets bracketed (lead)
        tb = expr(b, st, numctx, False, not wrap_b)
        if wrap_a:
            ta = group(ta, st)
        if wrap_b:
            tb = group(tb, st)
        if op in ("_", "%", "^", "<<", ">>", "!", "|", "&") or numctx == "branch":
            l = r = " "
            if st.pick("blanks", 2):
                l, r = _sp(st), _sp(st)
        else:
            c = st.pick("blanks", 4)
            l, r = [(" ", " "), ("", ""), ("\t", " "), ("  ", "  ")][c]
            if op == "-" and tb[:1] == "-" and r == "":
                r = " "
            if op == "/" and (tb[:1] in "/" or ta[-1:] == "/"):
                l = r = " "
        return ta + l + op + r + tb
    raise ValueError(e)


def _strip(e):
    while e[0] == "mark":
        e = e[2]
    return e


def _charlit(s):
    out = ""
    for ch in s:
        if ch == "\\":
            out += "\\\\"
        elif ch == "\n":
            out += "\\n"
        elif ch == "\t":
            out += "\\t"
        elif ch == "\r":
            out += "\\r"
        else:
            out += ch
    return out


def reg(n, st=PLAIN):
    if isinstance(n, (tuple, list)):
        # a computed register number: %sym or %<expr>
        t = expr(tuple(n), st)
        return "%" + t if n[0] in ("sym", "num") and not t.startswith("-") else "%<" + t + ">"
    c = st.pick("reg-percent", 3)
    if c == 1:
        return "%" + str(n)
    if c == 2:
        return "%<" + spell_number(n, st) + ">"
    name = "r%d" % n
    if n >= 6 and not st.pick("reg-sp-pc", 2):
        name = "sp" if n == 6 else "pc"
    elif n >= 6:
        name = "r%d" % n
    return st.case("case-register", name)


def operand(op, st=PLAIN):
    k = op[0]
    if k == "mark":
        return MARK_OPEN + op[1] + MARK_CLOSE + operand(op[2], st) + MARK_OPEN + "/" + op[1] + MARK_CLOSE
    if k == "raw":
        return op[1]
    if k == "reg":
        return reg(op[1], st)
    if k == "ac":
        return st.case("case-register", "ac%d" % op[1])
    if k == "ind":
        if st.pick("legacy-deferred", 2):
            return "@" + reg(op[1], st)
        return "(" + reg(op[1], st) + ")"
    if k == "inc":
        return "(" + reg(op[1], st) + ")+"
    if k == "incd":
        return "@(" + reg(op[1], st) + ")+"
    if k == "dec":
        return "-(" + reg(op[1], st) + ")"
    if k == "decd":
        return "@-(" + reg(op[1], st) + ")"
    if k in ("idx", "idxd"):
        return ("@" if k == "idxd" else "") + _index_expr(op[2], st) + "(" + reg(op[1], st) + ")"
    if k == "imm":
        return "#" + expr(op[1], st)
    if k == "abs":
        return "@#" + expr(op[1], st)
    if k == "rel":
        return _rel_expr(op[1], st)
    if k == "reld":
        return "@" + _rel_expr(op[1], st)
    if k == "num":
        return expr(op[1], st)
    if k == "tgt":
        return expr(op[1], st, numctx="branch")
    raise ValueError(op)


def _index_expr(e, st):
    # 'a+2(r1)' relies on pdpy11's hoisting; also spell it as '<a+2>(r1)' under the grouping rule
    s = _strip(e)
    t = expr(e, st, top=False)
    if s[0] in ("bin", "un") and st.pick("redundant-group", 3) == 1:
        return group(t, st)
    if s[0] == "un" and s[1] == "-" :
        # '-(x)(r1)' would read as autodecrement when x is a register name; keep as is otherwise
        return t
    return t


def _rel_expr(e, st):
    return expr(e, st)


def quote_string(text, st, quote=None):
    """spell a string chunk; returns quoted text. Characters are escaped where the syntax needs it."""
    q = quote or ['"', "/", "'"][st.pick("quote", 3)]
    out = q
    for ch in text:
        if ch == "\\":
            out += "\\\\"
        elif ch == q:
            out += "\\" + ch
        elif ch == "\n":
            out += "\\n"
        elif ch == "\r":
            out += "\\r"
        elif ch == "\t":
            out += "\\t" if not st.pick("quote", 2) else "\t"
        elif ch == "\0" or (ord(ch) < 0x20):
            out += "\\x%02x" % ord(ch)
        else:
            out += ch
    return out + q


DIRECTIVE_ALIAS = {".byte": ".db", ".word": ".dw"}


def directive(name, st):
    if name in DIRECTIVE_ALIAS and st.pick("directive-alias", 2):
        name = DIRECTIVE_ALIAS[name]
    return st.case("case-directive", name)


def mnemonic(mn, st):
    syn = SYN_OF.get(mn, [mn])
    if len(syn) > 1:
        i = st.pick("synonym", len(syn))
        if i:
            mn = [s for s in syn if s != mn][i - 1] if i - 1 < len(syn) - 1 else mn
    return st.case("case-mnemonic", mn)


def stmt_lines(s, st=PLAIN, indent="\t"):
    """-> list of text lines for one statement"""
    k = s["k"]
    if k == "label":
        return [st.case("case-symbol", s["name"]) + (":" + ":" * bool(s.get("export")))]
    if k == "local":
        return [s["name"] + ":"]
    if k == "assign":
        eq = "==" if s.get("export") else "="
        return [st.case("case-symbol", s["name"]) + _osp(st) + eq + _osp(st) + expr(s["e"], st)]
    if k == "insn":
        ops = [operand(o, st) for o in s["ops"]]
        sep = "," + _osp(st)
        head = mnemonic(s["mn"], st)
        return [indent + head + (_sp(st) + sep.join(ops) if ops else "")]
    if k == "data":
        d = "." + s["d"]
        es = [expr(e, st) for e in s["es"]]
        if s["d"] == "word" and es and s.get("implicit_ok") and st.pick("implicit-word", 2) and implicit_ok_text(es[0]):
            return [indent + ("," + _osp(st)).join(es)]
        return [indent + directive(d, st) + (_sp(st) + ("," + _osp(st)).join(es) if es else "")]
    if k == "words":
        es = [expr(e, st) for e in s["es"]]
        if not implicit_ok_text(es[0]) or (s.get("explicit_ok", True) and st.pick("implicit-word", 2)):
            return [indent + directive(".word", st) + _sp(st) + ("," + _osp(st)).join(es)]
        return [indent + ("," + _osp(st)).join(es)]
    if k == "str":
        parts = []
        for ch in s["chunks"]:
            if ch[0] == "s":
                parts.append(quote_string(ch[1], st, ch[2] if len(ch) > 2 else None))
            else:
                parts.append("<" + expr(ch[1], st) + ">")
        return [indent + directive("." + s["d"], st) + _sp(st) + _osp(st, "").join(parts)]
    if k == "blk":
        return [indent + directive("." + s["d"], st) + _sp(st) + expr(s["e"], st)]
    if k in ("even", "odd", "end", "once", "page", "list", "nlist"):
        return [indent + directive("." + k, st)]
    if k == "align":
        return [indent + directive(".align", st) + _sp(st) + expr(s["e"], st)]
    if k == "skip":
        return [indent + "." + _osp(st) + "=" + _osp(st) + expr(s["e"], st)]
    if k == "link":
        if s.get("form") == "dot":
            return [indent + "." + _osp(st) + "=" + _osp(st) + expr(s["e"], st)]
        return [indent + directive(".link", st) + _sp(st) + expr(s["e"], st)]
    if k == "repeat":
        lines = [indent + directive(".repeat", st) + _sp(st) + expr(s["e"], st) + " {"]
        for b in s["body"]:
            lines += stmt_lines(b, st, indent + "\t")
        lines.append(indent + "}")
        return lines
    if k == "include":
        return [indent + directive(".include", st) + _sp(st) + quote_string(s["path"], st)]
    if k == "insert":
        return [indent + st.case("case-directive", "insert_file") + _sp(st) + quote_string(s["path"], st)]
    if k == "extern":
        names = s["names"]
        if names == "all":
            return [indent + directive(".extern", st) + _sp(st) + st.case("case-directive", "all")]
        return [indent + directive(".extern", st) + _sp(st) + ("," + _osp(st)).join(st.case("case-symbol", n) for n in names)]
    if k == "make":
        args = [quote_string(a, st) for a in s.get("args", [])]
        return [indent + st.case("case-directive", s["d"]) + (_sp(st) + ", ".join(args) if args else "")]
    if k == "noise":
        return [indent + directive("." + s["d"], st) + (" " + s["text"] if s.get("text") else "")]
    if k == "raw":
        return s["text"].split("\n")
    if k == "comment":
        return [";" + s["text"]]
    raise ValueError(k)


def implicit_ok_text(first):
    """may an implicit word list start with this text? (see DESIGN 3.3: a line must not start with
    something that continues the previous expression)"""
    # a leading '<' or quote would be taken as another chunk of a preceding string directive, a leading '^' as xor
    return first[:1].isdigit()


COMMENT_WORDS = ["note", "r0 = counter", "mov r1, r2", "x: .word 5", "todo (fix)", ".end", "a = b", "\"quoted\"", "50% done"]


def render_file(stmts, st=PLAIN):
    """-> (text, marks) ; marks: tag -> (offset_start, offset_end); statement i with s['mark'] gets tag."""
    lines = []
    for s in stmts:
        ls = stmt_lines(s, st)
        if s.get("mark"):
            first = ls[0]
            lead = len(first) - len(first.lstrip())
            ls[0] = first[:lead] + MARK_OPEN + s["mark"] + MARK_CLOSE + first[lead:]
            ls[-1] = ls[-1] + MARK_OPEN + "/" + s["mark"] + MARK_CLOSE
        if s.get("prefix"):
            ls[0] = s["prefix"] + ls[0].lstrip()
        if st.pick("blank-lines", 4) == 1:
            lines.append("")
        if st.pick("comments", 4) == 1:
            lines.append(_osp(st, "") + ";" + COMMENT_WORDS[st.pick("comments", len(COMMENT_WORDS))])
        if st.pick("comments", 4) == 1:
            ls[-1] = ls[-1] + _osp(st) + "; " + COMMENT_WORDS[st.pick("comments", len(COMMENT_WORDS))]
        lines += ls
    text = "\n".join(lines) + "\n"
    return strip_marks(text)


def strip_marks(text):
    marks = {}
    out = []
    pos = 0
    i = 0
    open_at = {}
    while i < len(text):
        ch = text[i]
        if ch == MARK_OPEN:
            j = text.index(MARK_CLOSE, i)
            tag = text[i + 1:j]
            if tag.startswith("/"):
                marks[tag[1:]] = (open_at[tag[1:]], pos)
            else:
                open_at[tag] = pos
            i = j + 1
            continue
        out.append(ch)
        pos += 1
        i += 1
    return "".join(out), marks


def line_col(text, offset, tab=4):
    """1-based line and column, a tab counting `tab` columns"""
    line = text.count("\n", 0, offset) + 1
    start = text.rfind("\n", 0, offset) + 1
    col = 1
    for ch in text[start:offset]:
        col += tab if ch == "\t" else 1
    return line, col
