"""Hypothesis strategies for model programs (grammar G of DESIGN.md section 3).

program_st(**opts) draws a dict accepted by vf.model.assemble and vf.render:
  {"files": {path: [stmts]}, "blobs": {path: bytes}, "mains": [...], "charset": "bk", "meta": {...}}
Soundness constraints are implemented by construction (names, parity, no definitions inside .repeat, ...).
"""
from hypothesis import strategies as st

from .ref import pdp11 as P

RESERVED = set(P.mnemonics()) | {
    "byte", "word", "dword", "db", "dw", "ascii", "asciz", "rad50", "blkb", "blkw", "even", "odd", "align", "repeat", "error",
    "list", "nlist", "title", "sbttl", "ident", "page", "insert_file", "make_bin", "make_raw", "make_wav", "make_turbo_wav",
    "make_bk0010_rom", "link", "include", "extern", "end", "once", "all", "sp", "pc"} | {f"r{i}" for i in range(8)} | {f"ac{i}" for i in range(6)}


def names(prefix, n):
    out = [f"{prefix}{i}" for i in range(n)]
    for x in out:
        assert x.lower() not in RESERVED, x
    return out


GEN_OPS = [("reg", 0), ("reg", 3), ("reg", 5), ("ind", 1), ("inc", 2), ("dec", 6), ("incd", 4), ("decd", 3)]
ONE_OP = ["clr", "inc", "dec", "tst", "neg", "com", "asl", "tstb", "clrb", "swab", "jmp", "push", "pop", "call"]
TWO_OP = ["mov", "add", "sub", "cmp", "bis", "bic", "bit", "movb", "cmpb"]
NO_OP = ["nop", "halt", "rts_pc", "clc", "sec", "rti", "wait", "ret"]
BRANCHES = ["br", "bne", "beq", "bcc", "blo", "bpl", "bvs", "bgt", "ble", "bhis"]


class Names:
    """symbols visible from one file: its own constants/labels and other files' exports"""

    def __init__(self, consts, labels, ext_consts, ext_labels, aconsts=()):
        self.consts = consts
        self.labels = labels
        self.ext_consts = ext_consts
        self.ext_labels = ext_labels
        self.aconsts = list(aconsts)     # address-valued constants (label +- k), used like labels


def small_num():
    return st.one_of(st.integers(0, 16), st.integers(0, 16), st.integers(0, 255), st.sampled_from([0o100, 0o377, 0o1000, 0o177, 2, 4, 8]))


@st.composite
def const_expr(draw, nm, depth=2, nonlinear=True):
    """an expression over numbers and constants only (no addresses)"""
    pool = nm.consts + nm.ext_consts
    if depth == 0 or draw(st.integers(0, 2)) == 0 or not pool:
        if pool and draw(st.booleans()):
            return ("sym", draw(st.sampled_from(pool)))
        return ("num", draw(small_num()))
    ops = ["+", "-", "*", "+", "-"] + (["/", "%", "<<", ">>", "&", "|", "^", "_"] if nonlinear else [])
    op = draw(st.sampled_from(ops))
    a = draw(const_expr(nm, depth - 1, nonlinear))
    if op in ("<<", ">>", "_"):
        b = ("num", draw(st.integers(0, 4)))
    elif op in ("/", "%"):
        b = ("num", draw(st.integers(1, 9)))
    else:
        b = draw(const_expr(nm, depth - 1, nonlinear))
    if draw(st.integers(0, 9)) == 0:
        return ("un", draw(st.sampled_from(["-", "~"])), ("bin", op, a, b))
    return ("bin", op, a, b)


@st.composite
def addr_expr(draw, nm, allow_dot=True):
    """an address-valued expression: label, label+-k, . +- k, label + const"""
    pool = nm.labels + nm.ext_labels + nm.aconsts
    k = draw(st.integers(0, 5))
    if (k == 0 and allow_dot) or not pool:
        if not allow_dot:
            return ("num", draw(st.sampled_from([0o1000, 0o2000, 0o177560, 0o100])))
        d = draw(st.integers(-8, 8)) * 2
        if d == 0:
            return ("dot",)
        return ("bin", "+" if d > 0 else "-", ("dot",), ("num", abs(d)))
    lab = ("sym", draw(st.sampled_from(pool)))
    if k == 1:
        return ("bin", draw(st.sampled_from(["+", "-"])), lab, ("num", draw(st.integers(0, 16))))
    if k == 2 and nm.consts:
        return ("bin", "+", lab, ("sym", draw(st.sampled_from(nm.consts))))
    if k == 3:
        return ("bin", "+", ("num", draw(st.integers(0, 8))), lab)
    return lab


@st.composite
def diff_expr(draw, nm, allow_dot=False):
    """label difference (base-free), possibly scaled; with allow_dot also '. - label' under the operators pdpy11 evaluates on
    numbers only (/ % >> <<): such a value differs between the copies of a .repeat body"""
    pool = nm.labels + nm.aconsts
    if len(pool) < 2:
        return ("num", draw(small_num()))
    a, b = draw(st.sampled_from(pool)), draw(st.sampled_from(pool))
    d = ("bin", "-", ("sym", a), ("sym", b))
    if allow_dot and draw(st.integers(0, 2)) == 0:
        d = ("bin", "-", ("dot",), ("sym", b))
        op, n = draw(st.sampled_from([("/", 2), ("%", 4), (">>", 1), ("<<", 1), ("/", 4), ("%", 6)]))
        return ("bin", op, d, ("num", n))
    k = draw(st.integers(0, 6))
    if k == 5:
        # 'a - m*n - b' without brackets: three operators, the middle one binding tighter
        return ("bin", "-", ("bin", "-", ("sym", a), ("bin", "*", ("num", draw(st.integers(1, 3))), ("num", draw(st.integers(0, 5))))), ("sym", b))
    if k == 6:
        # a number on the left of the minus: 'N - a + b'
        return ("bin", "+", ("bin", "-", ("num", draw(st.integers(0, 0o1000))), ("sym", a)), ("sym", b))
    if k == 0:
        return ("bin", "/", d, ("num", 2))
    if k == 1:
        return ("bin", "+", d, ("num", draw(st.integers(0, 9))))
    if k == 2:
        return ("bin", "*", ("num", draw(st.integers(1, 3))), d)
    return d


@st.composite
def value_expr(draw, nm, allow_dot=True):
    """any 16-bit-ish value: constant expression, address expression or difference"""
    k = draw(st.integers(0, 9))
    if k < 4:
        return draw(const_expr(nm))
    if k < 8:
        return draw(addr_expr(nm, allow_dot))
    return draw(diff_expr(nm, allow_dot))


@st.composite
def gen_operand(draw, nm, allow_dot=True):
    op = draw(gen_operand_plain(nm, allow_dot))
    if getattr(nm, "regs", None) and op[0] in ("reg", "ind", "inc", "incd", "dec", "decd", "idx", "idxd") and isinstance(op[1], int) and op[1] in nm.regs \
            and draw(st.integers(0, 7)) == 0:
        # the register number spelled as '%symbol' (defined before or after the use)
        op = (op[0], ("sym", nm.regs[op[1]])) + tuple(op[2:])
    return op


@st.composite
def gen_operand_plain(draw, nm, allow_dot=True):
    k = draw(st.integers(0, 11))
    if k < 4:
        return draw(st.sampled_from(GEN_OPS))
    if k == 4:
        return ("imm", draw(value_expr(nm, allow_dot)))
    if k == 5:
        return ("imm", draw(const_expr(nm)))
    if k == 6:
        return ("abs", draw(addr_expr(nm, allow_dot)))
    if k == 7:
        return ("rel", draw(addr_expr(nm, allow_dot)))
    if k == 8:
        return ("reld", draw(addr_expr(nm, allow_dot)))
    if k == 9:
        return ("idx", draw(st.integers(0, 6)), draw(value_expr(nm, allow_dot)))
    if k == 10:
        return ("idxd", draw(st.integers(0, 6)), draw(const_expr(nm)))
    return ("idx", draw(st.integers(0, 7)), draw(addr_expr(nm, allow_dot)))


@st.composite
def insn_stmt(draw, nm, branch_targets=(), allow_dot=True):
    k = draw(st.integers(0, 9))
    if k < 3:
        return {"k": "insn", "mn": draw(st.sampled_from(ONE_OP)), "ops": [draw(gen_operand(nm, allow_dot))]}
    if k < 6:
        return {"k": "insn", "mn": draw(st.sampled_from(TWO_OP)), "ops": [draw(gen_operand(nm, allow_dot)), draw(gen_operand(nm, allow_dot))]}
    if k == 6:
        mn = draw(st.sampled_from(NO_OP))
        if mn == "rts_pc":
            return {"k": "insn", "mn": "rts", "ops": [("reg", 7)]}
        return {"k": "insn", "mn": mn, "ops": []}
    if k == 7 and branch_targets:
        return {"k": "insn", "mn": draw(st.sampled_from(BRANCHES)), "ops": [("tgt", ("sym", draw(st.sampled_from(list(branch_targets)))))]}
    if k == 8:
        d = draw(st.integers(-6, 6)) * 2
        e = ("dot",) if d == 0 else ("bin", "+" if d > 0 else "-", ("dot",), ("num", abs(d)))
        if not allow_dot:
            return {"k": "insn", "mn": "nop", "ops": []}
        return {"k": "insn", "mn": draw(st.sampled_from(BRANCHES)), "ops": [("tgt", e)]}
    if k == 9:
        mn = draw(st.sampled_from(["jsr", "xor", "mul", "ash", "sob_back", "emt", "trap", "mark", "fp", "fp"]))
        if mn == "fp":
            fop = draw(gen_operand(nm, allow_dot))
            if fop[0] == "reg":
                fop = ("ac", draw(st.integers(0, 5)))
            if draw(st.booleans()):
                return {"k": "insn", "mn": draw(st.sampled_from(["ldf", "addf", "muld", "cmpf", "divf", "ldcdf"])), "ops": [fop, ("ac", draw(st.integers(0, 3)))]}
            return {"k": "insn", "mn": draw(st.sampled_from(["stf", "std", "stcfd"])), "ops": [("ac", draw(st.integers(0, 3))), fop]}
        if mn in ("jsr", "xor"):
            return {"k": "insn", "mn": mn, "ops": [("reg", draw(st.integers(0, 7))), draw(gen_operand(nm, allow_dot))]}
        if mn in ("mul", "ash"):
            return {"k": "insn", "mn": mn, "ops": [draw(gen_operand(nm, allow_dot)), ("reg", draw(st.integers(0, 5)))]}
        if mn == "sob_back":
            if not allow_dot:
                return {"k": "insn", "mn": "nop", "ops": []}
            d = draw(st.integers(0, 6)) * 2
            return {"k": "insn", "mn": "sob", "ops": [("reg", 1), ("tgt", ("bin", "-", ("dot",), ("num", d)) if d else ("dot",))]}
        if mn == "mark":
            return {"k": "insn", "mn": "mark", "ops": [("num", ("num", draw(st.integers(0, 63))))]}
        return {"k": "insn", "mn": mn, "ops": [("num", ("num", draw(st.integers(0, 255))))]}
    return {"k": "insn", "mn": "nop", "ops": []}


STR_CHARS = "abcXYZ 0123456789!#$%&()*+,-.:;=?@[]^_{|}~"


@st.composite
def str_stmt(draw, nm):
    d = draw(st.sampled_from(["ascii", "asciz", "rad50", "ascii"]))
    chunks = []
    for _ in range(draw(st.integers(1, 3))):
        if draw(st.integers(0, 4)) == 0:
            hi = 39 if d == "rad50" else 255
            chunks.append(("n", ("num", draw(st.integers(0, hi)))))
        elif d == "rad50":
            chunks.append(("s", draw(st.text("ABCXYZ abc019$.%", min_size=0, max_size=7)), draw(st.sampled_from(['"', "/", "'"]))))
        else:
            chunks.append(("s", draw(st.text(STR_CHARS + "яЖ", min_size=0, max_size=9)), draw(st.sampled_from(['"', "/", "'"]))))
    return {"k": "str", "d": d, "chunks": chunks}


@st.composite
def count_expr(draw, nm, lo=0, hi=8, late=None):
    """a small non-negative count, spelled as a number or through a dedicated count constant"""
    v = draw(st.integers(lo, hi))
    if late is not None and draw(st.booleans()):
        name = f"n{len(late)}{late.get('_tag', '')}"
        late[name] = v
        return ("sym", name)
    return ("num", v)


@st.composite
def spelled(draw, v, late):
    """the number v, literally or through a count constant defined somewhere at the top level"""
    if late is not None and draw(st.booleans()):
        name = f"n{len(late)}{late.get('_tag', '')}"
        late[name] = v
        return ("sym", name)
    return ("num", v)


@st.composite
def body_stmt(draw, nm, opts, late, branch_targets, depth=0, in_repeat=False):
    """one size-bearing statement.  Returns a list of statements (alignment helpers may be added)."""
    kinds = ["insn", "insn", "insn", "word", "byte", "str", "blk", "dword", "words", "align"]
    if opts.get("byte_only"):
        return draw(byte_only_stmt(nm, opts, late, depth))
    if depth >= 2:
        # pdpy11 gets exponentially slow when address-dependent padding is nested in repeats: even-sized content only
        kinds = ["insn", "insn", "word", "dword", "words"]
    if opts.get("repeat", True) and depth < opts.get("repeat_depth", 2):
        kinds.append("repeat")
    if opts.get("skip") and not in_repeat:
        kinds.append("skip")
    k = draw(st.sampled_from(kinds))
    allow_dot = opts.get("dot", True)
    even = {"k": "even"}
    # pdpy11's running time doubles with every address-dependent padding statement (17 of them take 17 s):
    # a program gets a budget of them, after which only even-sized statements are drawn
    pad = opts.setdefault("_pad", [8])
    if k in ("byte", "str", "blk", "align"):
        cost = 4 ** depth if in_repeat else 1     # a repeat body is executed up to 4 times per level
        if pad[0] < cost:
            k = "insn"
        else:
            pad[0] -= cost
    if k == "insn":
        return [draw(insn_stmt(nm, branch_targets if not in_repeat else (), allow_dot))]
    if k == "word":
        es = draw(st.lists(value_expr(nm, allow_dot), min_size=0 if opts.get("empty_data", True) else 1, max_size=4))
        return [{"k": "data", "d": "word", "es": es, "implicit_ok": True}]
    if k == "words":
        first = ("num", draw(small_num()))
        es = [first] + draw(st.lists(value_expr(nm, allow_dot), min_size=0, max_size=3))
        return [{"k": "words", "es": es}]
    if k == "dword":
        es = draw(st.lists(st.one_of(const_expr(nm), value_expr(nm, allow_dot) if opts.get("dword_addr", True) else const_expr(nm)),
                           min_size=0 if opts.get("empty_data", True) and draw(st.integers(0, 3)) == 0 else 1, max_size=3))
        return [{"k": "data", "d": "dword", "es": es}]
    if k == "byte":
        es = draw(st.lists(st.one_of(st.integers(-128, 255).map(lambda v: ("num", v)), const_expr(nm, 1, False).map(lambda e: ("bin", "&", e, ("num", 0o377)))),
                           min_size=0 if opts.get("empty_data", True) else 1, max_size=5))
        return [{"k": "data", "d": "byte", "es": es}, even]
    if k == "str":
        return [draw(str_stmt(nm)), even]
    if k == "blk":
        d = draw(st.sampled_from(["blkb", "blkw"]))
        return [{"k": "blk", "d": d, "e": draw(count_expr(nm, 0, 9, late))}] + ([even] if d == "blkb" else [])
    if k == "align":
        which = draw(st.integers(0, 3))
        if which == 0:
            return [{"k": "even"}]
        if which == 1:
            return [{"k": "odd"}, {"k": "data", "d": "byte", "es": [("num", 7)]}]
        return [{"k": "align", "e": draw(spelled(draw(st.sampled_from(opts.get("align_moduli", [2, 4, 8, 16, 6, 10, 1]))), late))}]
    if k == "skip":
        return [{"k": "skip", "e": ("bin", "+", ("dot",), draw(spelled(draw(st.integers(0, 16)) * 2, late)))}]
    if k == "repeat":
        body = []
        for _ in range(draw(st.integers(1, 3))):
            body += draw(body_stmt(nm, opts, None, (), depth + 1, True))
        return [{"k": "repeat", "e": draw(count_expr(nm, 0, 4, late)), "body": body}]
    raise AssertionError(k)


def add_locals(draw, stmts):
    """numeric local labels with references from the same scope (the stretch between two ordinary labels)"""
    bounds = [-1] + [i for i, s_ in enumerate(stmts) if s_["k"] == "label"] + [len(stmts)]
    extra = []
    for n, (lo, hi) in enumerate(zip(bounds, bounds[1:])):
        if hi - lo < 3 or hi - lo > 7 or draw(st.integers(0, 1)):
            continue
        pts = [i for i in range(lo + 1, hi + 1) if i in even_points(stmts)]
        if not pts:
            continue
        name = draw(st.sampled_from(["1$", "2$", "10$", "7", "3"]))   # reused across scopes on purpose
        at = draw(st.sampled_from(pts))
        use = draw(st.sampled_from(pts))
        ref = ("loc", name + ":") if not name.endswith("$") else ("loc", name)
        kind = draw(st.integers(0, 2))
        if kind == 0:
            ustmt = {"k": "data", "d": "word", "es": [ref]}
        elif kind == 1:
            ustmt = {"k": "insn", "mn": "mov", "ops": [("imm", ref), ("reg", 2)]}
        else:
            ustmt = {"k": "insn", "mn": "jmp", "ops": [("rel", ref)]}
        extra.append((at, {"k": "local", "name": name}))
        extra.append((use, ustmt))
    for at, s_ in sorted(extra, key=lambda t: -t[0]):
        stmts.insert(at, s_)


@st.composite
def byte_only_stmt(draw, nm, opts, late, depth):
    """statements that may stand at any address parity (used with odd link bases)"""
    k = draw(st.sampled_from(["byte", "byte", "str", "blkb", "pad", "repeat"] if depth < 1 else ["byte", "str", "blkb"]))
    if k == "byte":
        return [{"k": "data", "d": "byte", "es": draw(st.lists(st.one_of(st.integers(-128, 255).map(lambda v: ("num", v)),
                 addr_expr(nm).map(lambda e: ("bin", "&", e, ("num", 0o377)))), min_size=0, max_size=5))}]
    if k == "str":
        s_ = draw(str_stmt(nm))
        if s_["d"] == "rad50":
            s_["d"] = "ascii"
            s_["chunks"] = [c if c[0] == "s" else ("n", ("num", 0o101)) for c in s_["chunks"]]
        return [s_]
    if k == "blkb":
        return [{"k": "blk", "d": "blkb", "e": draw(count_expr(nm, 0, 9, late))}]
    if k == "pad":
        return [{"k": draw(st.sampled_from(["even", "odd"]))}]
    body = []
    for _ in range(draw(st.integers(1, 3))):
        body += draw(byte_only_stmt(nm, opts, None, depth + 1))
    return [{"k": "repeat", "e": draw(count_expr(nm, 0, 4, late)), "body": body}]


@st.composite
def file_body(draw, nm, opts, tag):
    """statements of one file: labels sprinkled, constants defined before or after use"""
    late = {"_tag": tag}
    n = draw(st.integers(opts.get("min_stmts", 2), opts.get("max_stmts", 12)))
    stmts = []
    labels = list(nm.labels)
    # positions of labels: spread over the body
    label_at = {}
    for lab in labels:
        label_at.setdefault(draw(st.integers(0, n)), []).append(lab)
    for i in range(n):
        for lab in label_at.get(i, []):
            stmts.append({"k": "label", "name": lab, "export": lab in opts.get("exported", ())})
        near = [l for p, ls in label_at.items() if abs(p - i) <= 3 for l in ls]
        stmts += draw(body_stmt(nm, opts, late, near))
    for lab in label_at.get(n, []):
        stmts.append({"k": "label", "name": lab, "export": lab in opts.get("exported", ())})
    stmts.append({"k": "insn", "mn": "nop", "ops": []} if not opts.get("byte_only") else {"k": "data", "d": "byte", "es": [("num", 0o240)]})
    if opts.get("locals") and not opts.get("byte_only"):
        add_locals(draw, stmts)
    # definitions: count constants and the file's constants, each before or after the body
    late.pop("_tag")
    defs = [{"k": "assign", "name": k, "e": ("num", v)} for k, v in late.items()]
    cdefs = []
    for i, c in enumerate(nm.consts):
        sub = Names(nm.consts[i + 1:], [], [], [])
        e = draw(st.one_of(small_num().map(lambda v: ("num", v)), const_expr(sub, 2)))
        if opts.get("const_label_diff") and len(labels) >= 2 and draw(st.integers(0, 4)) == 0:
            e = draw(diff_expr(Names([], labels, [], [])))
        cdefs.append({"k": "assign", "name": c, "e": e, "export": c in opts.get("exported", ())})
    for a in nm.aconsts:
        lab = ("sym", draw(st.sampled_from(labels)))
        kk = draw(st.integers(-8, 8))
        e = lab if kk == 0 else ("bin", "+" if kk > 0 else "-", lab, ("num", abs(kk)))
        cdefs.append({"k": "assign", "name": a, "e": e, "export": a in opts.get("exported", ())})
    for n, name in sorted(getattr(nm, "regs", {}).items()):
        cdefs.append({"k": "assign", "name": name, "e": ("num", n)})
    alldefs = defs + cdefs
    pos = [draw(st.integers(0, len(stmts))) for _ in alldefs]
    # insert at top level only (never inside a .repeat body): positions index the top-level list
    for d, p_ in sorted(zip(alldefs, pos), key=lambda t: -t[1]):
        stmts.insert(p_, d)
    return stmts


@st.composite
def program_st(draw, **opts):
    nfiles = draw(st.integers(1, opts.get("max_files", 1)))
    opts = dict(opts, _pad=[opts.get("pad_budget", 8)])
    form = draw(st.sampled_from(opts.get("base_forms", ["none", "link", "dot", "link-late"])))
    if form not in ("link", "dot"):
        # a '. =' met before the base is set would set the base itself: only generated after a leading directive
        opts = dict(opts, skip=False)
    files, mains = {}, []
    exported_consts, exported_labels = [], []
    plan = []
    for f in range(nfiles):
        tag = "abc"[f]
        consts = names(f"k{tag}", draw(st.integers(0, 4)))
        labels = names(f"l{tag}", draw(st.integers(1, 5)))
        aconsts = names(f"v{tag}", draw(st.integers(0, 2))) if opts.get("const_addr") else []
        exp = []
        if nfiles > 1 and opts.get("exports", True) and (opts.get("exporter") is None or opts["exporter"] % nfiles == f):
            exp = [x for x in consts + labels if draw(st.integers(0, 2)) == 0]
        plan.append((tag, consts, labels, exp, aconsts))
    for f, (tag, consts, labels, exp, aconsts) in enumerate(plan):
        ext_c = [x for g, (t, c, l, e, a) in enumerate(plan) if g != f for x in e if x in c]
        ext_l = [x for g, (t, c, l, e, a) in enumerate(plan) if g != f for x in e if x in l]
        nm = Names(consts, labels, ext_c, ext_l, aconsts)
        if opts.get("dyn_regs"):
            nm.regs = {n: f"rq{tag}{n}" for n in range(6)}
        o = dict(opts)
        o["exported"] = set(exp)
        body = draw(file_body(nm, o, tag))
        path = f"f{tag}.mac"
        files[path] = body
        mains.append(path)
    ndecoys = 0
    if nfiles > 1 and opts.get("decoys", True):
        # another file exports a constant that carries the name of a private symbol of this file: the file's own definition wins,
        # wherever it stands and in whatever order the files are linked
        for f, (tag, consts, labels, exp, aconsts) in enumerate(plan):
            for name in consts + labels + aconsts:
                if name in exp or draw(st.integers(0, 5)) != 0:
                    continue
                g = draw(st.sampled_from([x for x in range(nfiles) if x != f]))
                body = files[mains[g]]
                body.insert(draw(st.integers(0, len(body))), {"k": "assign", "name": name, "e": ("num", draw(st.sampled_from([0, 2, 0o40000, 0o1000, 0o177776]))), "export": True})
                ndecoys += 1
    blobs = {}
    ninc = 0
    if opts.get("includes") or opts.get("inserts"):
        for path in list(mains):
            body = files[path]
            for _ in range(draw(st.integers(0, 2))):
                pos = draw(st.sampled_from(even_points(body)))
                if opts.get("inserts") and draw(st.booleans()):
                    bp = f"data/blob{len(blobs)}.bin"
                    blobs[bp] = draw(st.binary(min_size=0, max_size=40))
                    if len(blobs[bp]) % 2:
                        blobs[bp] += b"\x55"
                    body[pos:pos] = [{"k": "insert", "path": bp}]
                elif opts.get("includes"):
                    if ninc and draw(st.integers(0, 3)) == 0:
                        # the file included last, once more (a new instance of it, or nothing at all if it says .once)
                        body[pos:pos] = [{"k": "include", "path": ipath}]
                        continue
                    ninc += 1
                    ipath = draw(include_tree(files, blobs, opts, f"i{ninc}", 1))
                    body[pos:pos] = [{"k": "include", "path": ipath}]
    base = None
    if form != "none":
        base = draw(st.sampled_from([0, 0o2000, 0o40000, 0o100000, 0o157000, 0o1000, 0o600]))
        s = {"k": "link", "e": ("num", base), "form": "dot" if form == "dot" else "link"}
        first = files[mains[0]]
        if form == "link-late":
            # '.link' may stand anywhere at the top level of the first file
            first.insert(draw(st.integers(0, len(first))), s)
        else:
            first.insert(0, s)
    if opts.get("byte_only") and base is not None and draw(st.booleans()):
        base += 1
        for s_ in files[mains[0]]:
            if s_["k"] == "link":
                s_["e"] = ("num", base)
    return {"files": files, "blobs": blobs, "mains": mains, "charset": "bk", "meta": {"base_form": form, "base": base, "decoys": ndecoys}}


def even_points(body):
    """top-level positions at which the address is even by construction: not between a byte-granular statement
    and the '.even' that follows it (definitions and labels in between do not change that)"""
    pts = []
    pending_odd = False
    for i in range(len(body) + 1):
        if not pending_odd:
            pts.append(i)
        if i == len(body):
            break
        s_ = body[i]
        k = s_["k"]
        if k == "even":
            pending_odd = False
        elif k == "odd" or k == "str" or (k == "data" and s_["d"] == "byte") or (k == "blk" and s_["d"] == "blkb") or k == "insert":
            pending_odd = True
    return pts or [len(body)]


@st.composite
def include_tree(draw, files, blobs, opts, tag, depth):
    """adds an included file (and possibly files it includes, depth <= 3) to `files`; returns its path"""
    consts = names(f"k{tag}", draw(st.integers(0, 2)))
    labels = names(f"l{tag}", draw(st.integers(1, 3)))
    nm = Names(consts, labels, [], [])
    o = dict(opts)      # shares the padding budget (_pad) with the including program
    o["exported"] = set()
    o["max_stmts"] = 5
    o["skip"] = False
    body = draw(file_body(nm, o, tag))
    sub = "" if depth == 1 else f"d{depth}/"
    path = f"inc/{sub}{tag}.mac"
    if depth < 3 and draw(st.integers(0, 2)) == 0:
        child = draw(include_tree(files, blobs, opts, tag + "x", depth + 1))
        # path relative to this file's directory
        import posixpath
        rel = posixpath.relpath(child, posixpath.dirname(path))
        at = draw(st.sampled_from(even_points(body)))
        body[at:at] = [{"k": "include", "path": rel}]
    if draw(st.integers(0, 2)) == 0:
        body.insert(0, {"k": "once"})       # no effect on a file included once; drops every further inclusion
    files[path] = body
    return path


def style_st(rules=None):
    from . import render
    rules = rules or render.RULES
    return st.tuples(st.lists(st.integers(0, 255), min_size=1, max_size=40), st.sets(st.sampled_from(rules), max_size=8)).map(
        lambda t: {"ints": t[0], "rules": sorted(t[1])})
