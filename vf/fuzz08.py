"""Coverage-guided campaign for C08 (atheris / libFuzzer).  Runs as its own process:

    python -B vf/fuzz08.py --seconds 300 --seed 7 --corpus seeds|empty --work DIR

The fuzzer's bytes are decoded by a structured layer: a prefix of choice bytes selects a seed text and a sequence of
G-level mutations (vf/props/c08.apply_mutations), the remainder is spliced as raw characters (ASCII digits removed and at most two
non-ASCII digits kept, so the magnitude bounds of grammar G survive).  The semantic oracle (result or reported error, under both report handlers) is
inside the target; violations are written to DIR/findings.jsonl and the search goes on behind them.
"""
import json
import os
import re
import subprocess
import sys
import time

HERE = os.path.dirname(os.path.dirname(os.path.abspath(__file__)))


def campaign(ctx, spec):
    """called from the C08 shard: start the fuzzing process, collect its findings and counters"""
    from . import driver
    work = os.path.join(driver.scratch_root(), f"atheris-{spec['i']}")
    os.makedirs(work, exist_ok=True)
    env = dict(os.environ)
    deps = [p for p in (os.path.join(HERE, ".deps"), "/verif/.deps") if os.path.isdir(p)]
    env["PYTHONPATH"] = os.pathsep.join([HERE] + deps[:1])
    env.pop("PDPY11_VERIF", None)
    cmd = [sys.executable, "-B", os.path.join(HERE, "vf", "fuzz08.py"), "--seconds", str(spec["seconds"]), "--seed", str((ctx.seed * 131 + spec["i"]) % 2 ** 31 or 1),
           "--corpus", spec["corpus"], "--work", work]
    t0 = time.time()
    with open(os.path.join(work, "log"), "wb") as log:
        try:
            subprocess.run(cmd, env=env, stdout=log, stderr=subprocess.STDOUT, timeout=spec["seconds"] + 300)
        except subprocess.TimeoutExpired:
            pass
    stats = {"executions": 0, "classes": {}, "cov": 0}
    try:
        with open(os.path.join(work, "stats.json")) as f:
            stats = json.load(f)
    except (OSError, ValueError):
        pass
    try:
        with open(os.path.join(work, "log"), "rb") as f:
            covs = re.findall(rb"cov: (\d+)", f.read())
        if covs:
            stats["cov"] = int(covs[-1])
    except OSError:
        pass
    ctx.evaluations += stats.get("executions", 0)
    for k, v in stats.get("classes", {}).items():
        ctx.classes["atheris-" + k] += v
    ctx.classes[f"atheris-campaign-{spec['corpus']}"] += 1
    ctx.extra.setdefault("atheris", {})[f"campaign-{spec['i']}"] = {"corpus": spec["corpus"], "executions": stats.get("executions", 0), "edges": stats.get("cov", 0),
                                                                     "seconds": round(time.time() - t0)}
    for h in stats.get("nontrivial_hashes", []):
        ctx.nontrivial.add(bytes.fromhex(h))
    if stats.get("sample"):
        ctx.samples.append({"source": "atheris", "text": stats["sample"][:300]})
    if stats.get("executions", 0) == 0:
        from .core import HarnessError
        with open(os.path.join(work, "log"), "rb") as f:
            tail = f.read()[-1500:].decode("utf-8", "replace")
        raise HarnessError("atheris campaign executed nothing:\n" + tail)
    try:
        with open(os.path.join(work, "findings.jsonl")) as f:
            for line in f:
                rec = json.loads(line)
                ctx.fail(rec["sig"], rec["msg"], rec["case"])
    except OSError:
        pass


def main():
    import argparse
    ap = argparse.ArgumentParser()
    ap.add_argument("--seconds", type=int, default=60)
    ap.add_argument("--seed", type=int, default=1)
    ap.add_argument("--corpus", default="seeds")
    ap.add_argument("--work", required=True)
    a = ap.parse_args()
    sys.path.insert(0, HERE)
    import atheris
    with atheris.instrument_imports(include=["pdpy11"]):
        from vf import driver
        driver.pd()
    from vf.props import c08
    from vf import core
    seeds = [t for _, t in c08.seed_texts()]
    seeds = [("\n".join(t.split("\n")[:60]) + "\n") for t in seeds]
    corpus_dir = os.path.join(a.work, "corpus")
    os.makedirs(corpus_dir, exist_ok=True)
    if a.corpus == "seeds":
        for i in range(0, len(seeds), max(1, len(seeds) // 40)):
            with open(os.path.join(corpus_dir, f"s{i}"), "wb") as f:
                f.write(bytes([i % 256, i // 256 % 256, 0]))
    state = {"n": 0, "classes": {}, "seen": set(), "hashes": [], "sample": None, "t": time.time()}
    ops = ["delete", "duplicate", "swap", "replace-own", "replace-vocab", "char-delete", "char-replace", "char-insert", "char-transpose", "truncate"]

    def flush():
        with open(os.path.join(a.work, "stats.json"), "w") as f:
            json.dump({"executions": state["n"], "classes": state["classes"], "nontrivial_hashes": state["hashes"][:20000], "sample": state["sample"]}, f)

    def target(data):
        fdp = atheris.FuzzedDataProvider(data)
        idx = fdp.ConsumeIntInRange(0, len(seeds) - 1)
        text = seeds[idx]
        nm = fdp.ConsumeIntInRange(0, 8)
        muts = [(ops[fdp.ConsumeIntInRange(0, len(ops) - 1)], fdp.ConsumeIntInRange(0, 10000), fdp.ConsumeIntInRange(0, 10000), fdp.ConsumeIntInRange(0, 10000)) for _ in range(nm)]
        text = c08.apply_mutations(text, muts)
        pos = fdp.ConsumeIntInRange(0, max(len(text), 1))
        raw = fdp.ConsumeUnicodeNoSurrogates(40)
        raw = re.sub(r"[0-9]", "", raw)
        keep = 2                     # non-ASCII digits: at most two, so that '^D' + digits stays within G's magnitude bounds
        out = []
        for ch in raw:
            if ch.isnumeric() or ch.isdigit():
                if keep == 0:
                    continue
                keep -= 1
            out.append(ch)
        raw = "".join(out)
        text = text[:pos] + raw + text[pos:]
        case = {"kind": "texts", "texts": [text], "charset": "bk", "meta": {"source": "atheris", "planted": [], "mutations": nm}}
        driver.reset_state()     # fuzz target: no state leaks between iterations
        res, label, outs = c08.judge(case)
        state["n"] += 2
        state["classes"][label] = state["classes"].get(label, 0) + 1
        lines = [l for l in text.split("\n") if l.strip()]
        if len(lines) >= 3 and outs[0].kind in ("ok", "error") and not any(r[0] == "critical" for r in outs[0].reports):
            state["hashes"].append(core.digest(text).hex())
            if state["sample"] is None and nm:
                state["sample"] = text
        if res and res[0] not in state["seen"]:
            state["seen"].add(res[0])
            with open(os.path.join(a.work, "findings.jsonl"), "a") as f:
                f.write(json.dumps({"sig": res[0], "msg": res[1] + "\n--- text\n" + text[:1500], "case": case}) + "\n")
        if state["n"] % 200 == 0:
            flush()

    import atexit
    argv = [sys.argv[0], f"-max_total_time={a.seconds}", f"-seed={a.seed}", "-max_len=160", "-timeout=120", "-rss_limit_mb=6000", "-print_final_stats=1", f"-artifact_prefix={a.work}/", corpus_dir]
    atheris.Setup(argv, target)
    flush()
    try:
        atheris.Fuzz()
    finally:
        flush()


if __name__ == "__main__":
    main()
