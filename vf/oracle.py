"""Generic case kinds shared by property modules (also the replay formats).

expect case : {"kind":"expect","tree":{rel:text|{"hex":..}},"mains":[rel..],"charset":..,
               "expect":{"kind":"ok","base":int|None,"code":hex} |
                        {"kind":"error","ids":[...],"all":bool}}
equiv case  : {"kind":"equiv","variants":[{"tree":..,"mains":..,"charset":..}, ...]}
"""
from . import driver


def enc_tree(tree):
    return {k: (v if isinstance(v, str) or v is None else {"hex": bytes(v).hex()}) for k, v in tree.items()}


def dec_tree(tree):
    return {k: (bytes.fromhex(v["hex"]) if isinstance(v, dict) else v) for k, v in tree.items()}


def run_variant(v, **kw):
    tree = dec_tree(v["tree"])
    mains = v["mains"]
    if len(tree) == len(mains) and not v.get("scratch"):
        files = [("/vf/" + m, tree[m]) for m in mains]
        return driver.assemble(files, charset=v.get("charset", "bk"), timeout=v.get("timeout", 60), **kw)
    out, _root = driver.assemble_tree(tree, mains, charset=v.get("charset", "bk"), timeout=v.get("timeout", 60), **kw)
    return out


def single(text, charset="bk", name="main.mac"):
    return {"tree": {name: text}, "mains": [name], "charset": charset}


def expect_ok(variant, code, base=None):
    c = dict(variant)
    c["kind"] = "expect"
    c["expect"] = {"kind": "ok", "base": base, "code": bytes(code).hex()}
    return c


def expect_error(variant, ids, need_all=True):
    c = dict(variant)
    c["kind"] = "expect"
    c["expect"] = {"kind": "error", "ids": sorted(ids), "all": need_all}
    return c


def judge_expect(out, expect):
    """-> None or (sigclass, message)"""
    if out.kind in ("crash", "timeout", "silent", "ok-with-errors"):
        return (out.kind + ":" + (f"{out.exc[0]}@{out.exc[1]}" if out.exc else ""),
                f"assembler ended with {out.kind} {out.exc or ''} errors={sorted(set(out.error_ids()))}")
    if expect["kind"] == "ok":
        if out.kind != "ok":
            return ("rejected", f"expected success, got errors {sorted(set(out.error_ids()))}")
        if expect.get("base") is not None and out.base != expect["base"]:
            return ("base", f"expected base {expect['base']:#o}, got {out.base:#o}")
        want = bytes.fromhex(expect["code"])
        if out.code != want:
            i = next((i for i in range(min(len(want), len(out.code))) if want[i] != out.code[i]), min(len(want), len(out.code)))
            return ("bytes", f"image differs at offset {i}: expected {want[i:i+8].hex()} (len {len(want)}), got {out.code[i:i+8].hex()} (len {len(out.code)})")
        return None
    # expected failure
    if out.kind == "ok":
        return ("accepted", f"expected error {expect['ids']}, but assembly succeeded with {out.code[:16].hex()}...")
    got = set(out.error_ids())
    want = set(expect["ids"])
    if expect.get("all", True):
        if not want <= got:
            return ("wrong-error", f"expected error ids {sorted(want)}, reported {sorted(got)}")
    elif want and not (want & got):
        return ("wrong-error", f"expected one of {sorted(want)}, reported {sorted(got)}")
    return None


def check_expect(case, prefix=""):
    out = run_variant(case)
    res = judge_expect(out, case["expect"])
    if res is None:
        return []
    return [(prefix + res[0], res[1])]


def check_equiv(case, prefix=""):
    outs = [run_variant(v) for v in case["variants"]]
    fails = []
    for i, o in enumerate(outs):
        if o.kind in ("crash", "timeout", "silent", "ok-with-errors"):
            fails.append((prefix + o.kind + ":" + (f"{o.exc[0]}@{o.exc[1]}" if o.exc else ""), f"variant {i} ended with {o.kind} {o.exc}"))
    if fails:
        return fails
    a = outs[0]
    for i, o in enumerate(outs[1:], 1):
        if not a.same_result(o):
            return [(prefix + "differ", f"variant 0 -> {brief(a)}; variant {i} -> {brief(o)}")]
    return []


def brief(o):
    if o.kind == "ok":
        return f"ok base={o.base:#o} len={len(o.code)} code={o.code[:24].hex()}"
    return f"{o.kind} {sorted(set(o.error_ids()))} {o.exc or ''}"


def replay_generic(case, prefix=""):
    if case["kind"] == "expect":
        return check_expect(case, prefix)
    if case["kind"] == "equiv":
        return check_equiv(case, prefix)
    raise ValueError("unknown case kind " + case["kind"])
