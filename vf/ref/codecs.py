"""R4 - independent container / codec references (RADIX-50, BK checksum, .bin, WAV demodulators).

Nothing here imports pdpy11.
"""
import io
import struct
import wave

# DEC RADIX-50: 0 blank, 1-26 letters, 27 '$', 28 '.', 29 unused (spelled '%'), 30-39 digits
RAD50 = [" "] + [chr(ord("A") + i) for i in range(26)] + ["$", ".", "%"] + [str(i) for i in range(10)]
assert len(RAD50) == 40
RAD50_INDEX = {c: i for i, c in enumerate(RAD50)}


def rad50_unpack(word):
    """standard unpacking: three characters from one 16-bit word"""
    return RAD50[word // 1600] + RAD50[(word // 40) % 40] + RAD50[word % 40]


def rad50_pack_codes(codes):
    """codes: list of ints 0..39 -> list of words (blank padded)"""
    codes = list(codes)
    while len(codes) % 3:
        codes.append(0)
    return [(codes[i] * 40 + codes[i + 1]) * 40 + codes[i + 2] for i in range(0, len(codes), 3)]


def rad50_pack(text):
    return rad50_pack_codes([RAD50_INDEX[c] for c in text.upper()])


def words_le(words):
    return b"".join(struct.pack("<H", w & 0xFFFF) for w in words)


# ---------------------------------------------------------------------------
# BK-0010 tape checksum: 16-bit sum of bytes with end-around carry

def bk_checksum(data):
    s = 0
    for b in data:
        s += b
        if s > 0xFFFF:
            s = (s & 0xFFFF) + 1
    return s


def read_bin(blob):
    """-> (base, length, payload) of a .bin container"""
    if len(blob) < 4:
        raise ValueError("bin container shorter than its header")
    base, length = struct.unpack("<HH", blob[:4])
    return base, length, blob[4:]


# ---------------------------------------------------------------------------
# WAV

def riff_check(blob):
    """Validate RIFF/WAVE structure by hand and through the wave module.
    Returns (rate, samples) or raises ValueError."""
    if len(blob) < 44:
        raise ValueError("shorter than a WAV header")
    if blob[0:4] != b"RIFF" or blob[8:12] != b"WAVE":
        raise ValueError("no RIFF/WAVE magic")
    riff_size = struct.unpack("<I", blob[4:8])[0]
    if riff_size != len(blob) - 8:
        raise ValueError(f"RIFF size field {riff_size} != file size - 8 ({len(blob) - 8})")
    if blob[12:16] != b"fmt ":
        raise ValueError("fmt chunk missing")
    fmt_size, fmt, ch, rate, byte_rate, align, bits = struct.unpack("<IHHIIHH", blob[16:36])
    if fmt_size != 16 or fmt != 1:
        raise ValueError("not plain PCM")
    if ch != 1 or bits != 8:
        raise ValueError(f"not 8-bit mono ({ch} channels, {bits} bits)")
    if align != 1 or byte_rate != rate:
        raise ValueError("inconsistent byte rate / block alignment")
    if blob[36:40] != b"data":
        raise ValueError("data chunk missing")
    data_size = struct.unpack("<I", blob[40:44])[0]
    if data_size != len(blob) - 44:
        raise ValueError(f"data size field {data_size} != remaining bytes {len(blob) - 44}")
    with wave.open(io.BytesIO(blob), "rb") as w:
        if w.getnchannels() != 1 or w.getsampwidth() != 1:
            raise ValueError("wave module disagrees about channels/width")
        if w.getnframes() != data_size or w.getframerate() != rate:
            raise ValueError("wave module disagrees about length/rate")
        frames = w.readframes(w.getnframes())
    if frames != blob[44:]:
        raise ValueError("wave module returns different frames")
    return rate, blob[44:]


def run_lengths(samples, threshold=128):
    """[(level, length)] of the thresholded stream; level True = high"""
    runs = []
    cur = None
    n = 0
    for s in samples:
        lv = s >= threshold
        if lv == cur:
            n += 1
        else:
            if cur is not None:
                runs.append((cur, n))
            cur, n = lv, 1
    if cur is not None:
        runs.append((cur, n))
    return runs


class DemodError(ValueError):
    pass


def _pulses(samples):
    """Pair runs into pulses (high run, low run) -> list of (high_len, low_len)."""
    runs = run_lengths(samples)
    if runs and not runs[0][0]:
        runs = runs[1:]  # must start on a high half-period
    pulses = []
    for i in range(0, len(runs) - 1, 2):
        (h, hn), (l, ln) = runs[i], runs[i + 1]
        if not h or l:
            raise DemodError("levels do not alternate")
        pulses.append((hn, ln))
    if len(runs) % 2:
        pulses.append((runs[-1][1], 0))
    return pulses


def demod_normal(samples):
    """BK-0010 normal-speed tape record -> (header20, payload, checksum, info).

    Structure (BK-0010 monitor tape routine), measured in units of the pilot
    half-period T taken from the pilot tone itself:
      pilot (many 1T/1T pulses)  marker (4T/4T)  1-bit sync (2T/2T ... see below)
      short pilot                marker          sync
      160 bit cells (header)     short pilot marker sync   8*len bit cells
      16 bit cells (checksum)    trailer pilot
    A bit cell is one pulse with high==low: width 1T -> 0, width 2T -> 1, followed by a
    1T/1T synchro pulse.
    """
    pulses = _pulses(samples)
    if len(pulses) < 100:
        raise DemodError("too short for a pilot tone")
    T = pulses[10][0]
    if T < 1:
        raise DemodError("bad pilot")

    def cls(p):
        h, l = p
        if h != l:
            raise DemodError(f"asymmetric pulse {p}")
        if h == T:
            return "S"
        if h == 2 * T:
            return "L"
        if h == 4 * T:
            return "M"
        raise DemodError(f"pulse width {h} is not 1,2,4 x {T}")

    sym = [cls(p) for p in pulses]
    pos = 0

    def pilot(minimum):
        nonlocal pos
        n = 0
        while pos < len(sym) and sym[pos] == "S":
            pos += 1
            n += 1
        if n < minimum:
            raise DemodError(f"pilot of {n} pulses, expected at least {minimum} at pulse {pos}")
        return n

    def marker():
        nonlocal pos
        if sym[pos:pos + 2] != ["M", "L"]:
            raise DemodError(f"marker expected at pulse {pos}, found {sym[pos:pos + 2]}")
        pos += 2
        # the marker's long pulse is followed by the synchro short pulse of a bit cell
        if pos < len(sym) and sym[pos] == "S":
            pos += 1
        else:
            raise DemodError(f"synchro pulse expected after marker at pulse {pos}")

    def bits(n):
        nonlocal pos
        out = []
        for _ in range(n):
            if pos + 1 >= len(sym) + 0 and pos >= len(sym):
                raise DemodError("stream ends inside data")
            d = sym[pos]
            if d not in "SL":
                raise DemodError(f"data pulse expected at {pos}, found {d}")
            out.append(1 if d == "L" else 0)
            pos += 1
            if pos >= len(sym) or sym[pos] != "S":
                raise DemodError(f"synchro pulse expected at {pos}")
            pos += 1
        return out

    def to_bytes(bl):
        res = bytearray()
        for i in range(0, len(bl), 8):
            v = 0
            for j, b in enumerate(bl[i:i + 8]):
                v |= b << j  # least significant bit first
            res.append(v)
        return bytes(res)

    info = {"T": T}
    info["pilot"] = pilot(1000)
    marker()
    info["pilot2"] = pilot(1)
    marker()
    header = to_bytes(bits(160))
    info["pilot3"] = pilot(1)
    marker()
    length = struct.unpack("<H", header[2:4])[0]
    payload = to_bytes(bits(8 * length))
    checksum = struct.unpack("<H", to_bytes(bits(16)))[0]
    info["trailer"] = pilot(16)
    if pos != len(sym):
        raise DemodError(f"{len(sym) - pos} unexpected pulses after the trailer")
    return header, payload, checksum, info
