"""R4 - independent container / codec references (RADIX-50, BK checksum, .bin, WAV demodulators).

Nothing here imports pdpy11.
"""
import io
import struct
import wave

# DEC RADIX-50: 0 blank, 1-26 letters, 27 '$', 28 '.', 29 unused (spelled '%'), 30-39 digits
RAD50 = [" "] + [chr(ord("A") + i) for i in range(26)] + ["$", ".", "%"] + [str(i) for i in range(10)]
assert len(RAD50) == 40
RAD50_INDEX = {c: i for i, c in enumerate(RAD50)}


def rad50_unpack(word):
    """standard unpacking: three characters from one 16-bit word"""
    return RAD50[word // 1600] + RAD50[(word // 40) % 40] + RAD50[word % 40]


def rad50_pack_codes(codes):
    """codes: list of ints 0..39 -> list of words (blank padded)"""
    codes = list(codes)
    while len(codes) % 3:
        codes.append(0)
    return [(codes[i] * 40 + codes[i + 1]) * 40 + codes[i + 2] for i in range(0, len(codes), 3)]


def rad50_pack(text):
    return rad50_pack_codes([RAD50_INDEX[c] for c in text.upper()])


def words_le(words):
    return b"".join(struct.pack("<H", w & 0xFFFF) for w in words)


# ---------------------------------------------------------------------------
# BK-0010 tape checksum: 16-bit sum of bytes with end-around carry

def bk_checksum(data):
    s = 0
    for b in data:
        s += b
        if s > 0xFFFF:
            s = (s & 0xFFFF) + 1
    return s


def read_bin(blob):
    """-> (base, length, payload) of a .bin container"""
    if len(blob) < 4:
        raise ValueError("bin container shorter than its header")
    base, length = struct.unpack("<HH", blob[:4])
    return base, length, blob[4:]


# ---------------------------------------------------------------------------
# WAV

def riff_check(blob):
    """Validate RIFF/WAVE structure by hand and through the wave module.
    Returns (rate, samples) or raises ValueError."""
    if len(blob) < 44:
        raise ValueError("shorter than a WAV header")
    if blob[0:4] != b"RIFF" or blob[8:12] != b"WAVE":
        raise ValueError("no RIFF/WAVE magic")
    riff_size = struct.unpack("<I", blob[4:8])[0]
    if riff_size != len(blob) - 8:
        raise ValueError(f"RIFF size field {riff_size} != file size - 8 ({len(blob) - 8})")
    if blob[12:16] != b"fmt ":
        raise ValueError("fmt chunk missing")
    fmt_size, fmt, ch, rate, byte_rate, align, bits = struct.unpack("<IHHIIHH", blob[16:36])
    if fmt_size != 16 or fmt != 1:
        raise ValueError("not plain PCM")
    if ch != 1 or bits != 8:
        raise ValueError(f"not 8-bit mono ({ch} channels, {bits} bits)")
    if align != 1 or byte_rate != rate:
        raise ValueError("inconsistent byte rate / block alignment")
    if blob[36:40] != b"data":
        raise ValueError("data chunk missing")
    data_size = struct.unpack("<I", blob[40:44])[0]
    if data_size != len(blob) - 44:
        raise ValueError(f"data size field {data_size} != remaining bytes {len(blob) - 44}")
    with wave.open(io.BytesIO(blob), "rb") as w:
        if w.getnchannels() != 1 or w.getsampwidth() != 1:
            raise ValueError("wave module disagrees about channels/width")
        if w.getnframes() != data_size or w.getframerate() != rate:
            raise ValueError("wave module disagrees about length/rate")
        frames = w.readframes(w.getnframes())
    if frames != blob[44:]:
        raise ValueError("wave module returns different frames")
    return rate, blob[44:]


def run_lengths(samples, threshold=128):
    """[(level, length)] of the thresholded stream; level True = high"""
    runs = []
    cur = None
    n = 0
    for s in samples:
        lv = s >= threshold
        if lv == cur:
            n += 1
        else:
            if cur is not None:
                runs.append((cur, n))
            cur, n = lv, 1
    if cur is not None:
        runs.append((cur, n))
    return runs


class DemodError(ValueError):
    pass


def _pulses(samples):
    """Pair runs into pulses -> list of (high_len, low_len); the stream must start on a high half-period."""
    runs = run_lengths(samples)
    if not runs:
        raise DemodError("no samples")
    if not runs[0][0]:
        raise DemodError("stream starts with a low level")
    pulses = []
    for i in range(0, len(runs) - 1, 2):
        (h, hn), (l, ln) = runs[i], runs[i + 1]
        if not h or l:
            raise DemodError("levels do not alternate")
        pulses.append((hn, ln))
    if len(runs) % 2:
        pulses.append((runs[-1][1], 0))
    return pulses


def _bytes_lsb_first(bits):
    res = bytearray()
    if len(bits) % 8:
        raise DemodError("bit count is not a multiple of 8")
    for i in range(0, len(bits), 8):
        v = 0
        for j, b in enumerate(bits[i:i + 8]):
            v |= b << j
        res.append(v)
    return bytes(res)


def demod_normal(samples):
    """BK-0010 normal-speed tape record -> (header20, payload, checksum, info).

    Pulse widths are measured in units of the pilot half-period T, taken from the pilot tone itself.
    Symbols: S = T/T, L = 2T/2T, M = 4T/4T (marker).  Record structure (BK-0010 monitor tape routine):
        pilot (>= 1000 S)  M L   pilot (>= 1 S)  M L   160 bit cells (header: base, length, 16 name bytes)
        pilot (>= 1 S)  M L      8*length bit cells (payload)   16 bit cells (checksum)   trailer pilot (>= 16 S)
    A bit cell is one synchro pulse S followed by one data pulse: S = 0, L = 1; bytes least significant bit first.
    """
    pulses = _pulses(samples)
    if len(pulses) < 1100:
        raise DemodError("too short for a pilot tone")
    T = pulses[10][0]
    if T < 1:
        raise DemodError("bad pilot")

    def cls(p):
        h, l = p
        if h != l:
            raise DemodError(f"asymmetric pulse {p}")
        for name, k in (("S", 1), ("L", 2), ("M", 4)):
            if h == k * T:
                return name
        raise DemodError(f"pulse width {h} is not 1, 2 or 4 x {T}")

    sym = [cls(p) for p in pulses]
    pos = 0

    def pilot(minimum):
        nonlocal pos
        n = 0
        while pos < len(sym) and sym[pos] == "S":
            pos += 1
            n += 1
        if n < minimum:
            raise DemodError(f"pilot of {n} pulses, expected at least {minimum} (pulse {pos})")
        return n

    def marker():
        nonlocal pos
        if sym[pos:pos + 2] != ["M", "L"]:
            raise DemodError(f"sync marker expected at pulse {pos}, found {sym[pos:pos + 2]}")
        pos += 2

    def cells(n):
        nonlocal pos
        out = []
        for _ in range(n):
            if pos + 1 >= len(sym):
                raise DemodError("stream ends inside data")
            if sym[pos] != "S":
                raise DemodError(f"synchro pulse expected at pulse {pos}, found {sym[pos]}")
            d = sym[pos + 1]
            if d not in "SL":
                raise DemodError(f"data pulse expected at pulse {pos + 1}, found {d}")
            out.append(1 if d == "L" else 0)
            pos += 2
        return out

    info = {"T": T}
    info["pilot"] = pilot(1000)
    marker()
    info["pilot2"] = pilot(1)
    marker()
    header = _bytes_lsb_first(cells(160))
    info["pilot3"] = pilot(1)
    marker()
    length = struct.unpack("<H", header[2:4])[0]
    payload = _bytes_lsb_first(cells(8 * length))
    checksum = struct.unpack("<H", _bytes_lsb_first(cells(16)))[0]
    info["trailer"] = pilot(16)
    if pos != len(sym):
        raise DemodError(f"{len(sym) - pos} unexpected pulses after the trailer")
    return header, payload, checksum, info


def demod_turbo(samples):
    """pdpy11's documented turbo format -> (header20, payload, checksum, info).

    One pulse per bit: high for 1 sample = 0, high for 3 samples = 1, each followed by a low of 2 samples; blocks are
    separated by a pause of 4 extra low samples; the pilot is >= 1000 pulses of 3/3 and ends with a marker of 12/12;
    the record ends with two 3/3 pulses.  (No external standard exists for this format: constants as documented.)
    """
    runs = run_lengths(samples)
    if not runs or not runs[0][0]:
        raise DemodError("stream does not start on a high level")
    pos = 0
    n = 0
    while pos + 1 < len(runs) and runs[pos] == (True, 3) and runs[pos + 1] == (False, 3):
        pos += 2
        n += 1
    if n < 1000:
        raise DemodError(f"turbo pilot of {n} pulses")
    if runs[pos:pos + 2] != [(True, 12), (False, 12)]:
        raise DemodError(f"turbo marker expected, found {runs[pos:pos + 2]}")
    pos += 2
    info = {"pilot": n}

    def block(nbits, last_low):
        """nbits bit pulses; the last one is followed by a low run of `last_low` samples"""
        nonlocal pos
        out = []
        for i in range(nbits):
            if pos + 1 >= len(runs) + (0 if last_low else 1):
                raise DemodError("stream ends inside a turbo block")
            h = runs[pos]
            if not h[0] or h[1] not in (1, 3):
                raise DemodError(f"bit pulse of width {h} at run {pos}")
            want_low = last_low if i == nbits - 1 else 2
            l = runs[pos + 1]
            if l != (False, want_low):
                raise DemodError(f"low run {l} after bit {i}, expected {want_low}")
            out.append(1 if h[1] == 3 else 0)
            pos += 2
        return out

    # the header is followed by one pause; an empty payload makes the two pauses adjacent
    hb = []
    start = pos
    # read 159 bits plainly, the 160th has a longer low run that tells whether the payload is empty
    hb = block(159, 2)
    h = runs[pos]
    if not h[0] or h[1] not in (1, 3):
        raise DemodError("bad last header bit")
    hb.append(1 if h[1] == 3 else 0)
    low = runs[pos + 1]
    pos += 2
    header = _bytes_lsb_first(hb)
    length = struct.unpack("<H", header[2:4])[0]
    if length == 0:
        if low != (False, 2 + 4 + 4):
            raise DemodError(f"pauses after the header of an empty record: low run {low}")
        payload = b""
    else:
        if low != (False, 2 + 4):
            raise DemodError(f"pause after the header: low run {low}")
        payload = _bytes_lsb_first(block(8 * length, 2 + 4))
    cs = block(16, 2)
    checksum = struct.unpack("<H", _bytes_lsb_first(cs))[0]
    if runs[pos:] != [(True, 3), (False, 3), (True, 3), (False, 3)]:
        raise DemodError(f"turbo trailer expected, found {runs[pos:pos + 6]}")
    return header, payload, checksum, info
