"""R1 - independent PDP-11 reference: opcode table, encoder and decoder.

Written from the PDP-11 processor handbook (basic set, EIS, FIS), the KDJ11 / FP11 /
CIS (KEF11) manuals and the 1801VM2 documentation.  Opcodes are *integers* and
formats are *operand layouts*; nothing here is derived from pdpy11/architecture.py and
this module never imports pdpy11.

Operand forms (tuples):
  ("reg", n)  ("ind", n)  ("inc", n)  ("incd", n)  ("dec", n)  ("decd", n)
  ("idx", n, x)  ("idxd", n, x)
  ("imm", x)  ("abs", x)  ("rel", a)  ("reld", a)        PC forms; a = effective address
  ("ac", n)                                              FP accumulator
  ("num", v)                                             inline field / register number
  ("tgt", a)                                             branch / SOB target address
"""

M16 = 0xFFFF

# ---------------------------------------------------------------------------
# table: mnemonic -> (format, base opcode, canonical mnemonic)

TABLE = {}
PINNED = set()   # rows for which no vendor-independent public definition was used


def _add(fmt, base, *names, pinned=False):
    canon = names[0]
    for n in names:
        assert n not in TABLE, n
        TABLE[n] = (fmt, base, canon)
        if pinned:
            PINNED.add(n)


# -- no operands -------------------------------------------------------------
_add("none", 0o000000, "halt", "hlt")
_add("none", 0o000001, "wait")
_add("none", 0o000002, "rti")
_add("none", 0o000003, "bpt")
_add("none", 0o000004, "iot")
_add("none", 0o000005, "reset")
_add("none", 0o000006, "rtt")
_add("none", 0o000007, "mfpt")
_add("none", 0o000240, "nop")
# condition code operators: 000240 | (set?020) | N=10 Z=4 V=2 C=1 ; names list flags in the order n z v c
for _set, _pfx in ((0, "cl"), (0o20, "se")):
    for _bits in range(1, 16):
        _name = _pfx + "".join(ch for ch, b in (("n", 8), ("z", 4), ("v", 2), ("c", 1)) if _bits & b)
        if _bits == 15:
            _add("none", 0o240 | _set | _bits, _name, "ccc" if not _set else "scc")
        else:
            _add("none", 0o240 | _set | _bits, _name)
# 1801VM2 (pinned from the vendor documentation)
_add("none", 0o000012, "start", pinned=True)
_add("none", 0o000016, "step", pinned=True)
_add("none", 0o000020, "rd", pinned=True)
_add("none", 0o000021, "urd", pinned=True)
_add("none", 0o000022, "rdpc", pinned=True)
_add("none", 0o000024, "rdps", pinned=True)
_add("none", 0o000031, "uwr", pinned=True)
_add("none", 0o000032, "wrpc", pinned=True)
_add("none", 0o000034, "wrps", pinned=True)
_add("none", 0o000220, "u3000", pinned=True)
# CIS (KEF11-B / DEC STD 168)
for _i, _n in enumerate(["movc", "movrc", "movtc"]):
    _add("none", 0o076030 + _i, _n)
    _add("none", 0o076130 + _i, _n + "i")
for _i, _n in enumerate(["locc", "skpc", "scanc", "spanc", "cmpc", "matc"]):
    _add("none", 0o076040 + _i, _n)
    _add("none", 0o076140 + _i, _n + "i")
for _i, _n in enumerate(["addn", "subn", "cmpn", "cvtnl", "cvtpn", "cvtnp", "ashn", "cvtln"]):
    _add("none", 0o076050 + _i, _n)
    _add("none", 0o076150 + _i, _n + "i")
for _i, _n in enumerate(["addp", "subp", "cmpp", "cvtpl", "mulp", "divp", "ashp", "cvtlp"]):
    _add("none", 0o076070 + _i, _n)
    _add("none", 0o076170 + _i, _n + "i")
_add("none", 0o076600, "med", "med6x")
_add("none", 0o076601, "med74c", pinned=True)
# FP11 no-operand group
_add("none", 0o170000, "cfcc")
_add("none", 0o170001, "setf")
_add("none", 0o170002, "seti")
_add("none", 0o170003, "ldub", pinned=True)
_add("none", 0o170004, "mns", "msn", "ldsc", pinned=True)
_add("none", 0o170005, "mpp", "sta0", pinned=True)
_add("none", 0o170006, "mrs", "stb0", pinned=True)
_add("none", 0o170007, "stq0", pinned=True)
_add("none", 0o170011, "setd")
_add("none", 0o170012, "setl")

# -- single general operand (bits 5-0) ----------------------------------------
_add("dd", 0o000100, "jmp")
_add("dd", 0o000300, "swab")
for _i, _n in enumerate(["clr", "com", "inc", "dec", "neg", "adc", "sbc", "tst"]):
    _add("dd", 0o005000 + _i * 0o100, _n)
    _add("dd", 0o105000 + _i * 0o100, _n + "b")
for _i, _n in enumerate(["ror", "rol", "asr", "asl"]):
    _add("dd", 0o006000 + _i * 0o100, _n)
    _add("dd", 0o106000 + _i * 0o100, _n + "b")
_add("dd", 0o006500, "mfpi")
_add("dd", 0o006600, "mtpi")
_add("dd", 0o006700, "sxt")
_add("dd", 0o007000, "csm")
_add("dd", 0o007200, "tstset")
_add("dd", 0o007300, "wrtlck")
_add("dd", 0o106400, "mtps")
_add("dd", 0o106500, "mfpd")
_add("dd", 0o106600, "mtpd")
_add("dd", 0o106700, "mfps")
_add("dd", 0o170100, "ldfps")
_add("dd", 0o170200, "stfps")
_add("dd", 0o170300, "stst")

# -- double operand ------------------------------------------------------------
for _i, _n in enumerate(["mov", "cmp", "bit", "bic", "bis"]):
    _add("ssdd", (_i + 1) << 12, _n)
    _add("ssdd", 0o100000 | (_i + 1) << 12, _n + "b")
_add("ssdd", 0o060000, "add")
_add("ssdd", 0o160000, "sub")

# -- register + general ----------------------------------------------------------
_add("rdd", 0o004000, "jsr")
_add("rdd", 0o074000, "xor")
_add("ssr", 0o070000, "mul")
_add("ssr", 0o071000, "div")
_add("ssr", 0o072000, "ash")
_add("ssr", 0o073000, "ashc")

# -- register only -----------------------------------------------------------------
_add("r", 0o000200, "rts")
_add("r", 0o000210, "medlsi", pinned=True)
_add("r", 0o075000, "fadd")
_add("r", 0o075010, "fsub")
_add("r", 0o075020, "fmul")
_add("r", 0o075030, "fdiv")
_add("r", 0o076020, "l2dr")
_add("r", 0o076060, "l3dr")

# -- branches ---------------------------------------------------------------------------
_add("br", 0o000400, "br")
for _i, _n in enumerate(["bne", "beq", "bge", "blt", "bgt", "ble"]):
    _add("br", 0o001000 + _i * 0o400, _n)
for _i, _n in enumerate(["bpl", "bmi", "bhi", "blos", "bvc", "bvs"]):
    _add("br", 0o100000 + _i * 0o400, _n)
_add("br", 0o103000, "bcc", "bhis")
_add("br", 0o103400, "bcs", "blo")
_add("sob", 0o077000, "sob")

# -- inline numbers ------------------------------------------------------------------------
_add("n8", 0o104000, "emt")
_add("n8", 0o104400, "trap", "sys")
_add("n6", 0o006400, "mark")
_add("n6", 0o076700, "xfc")
_add("n3", 0o000230, "spl")

# -- FP11 ----------------------------------------------------------------------------------
_add("f1", 0o170400, "clrf", "clrd")
_add("f1", 0o170500, "tstf", "tstd")
_add("f1", 0o170600, "absf", "absd")
_add("f1", 0o170700, "negf", "negd")
_add("fsrc_ac", 0o171000, "mulf", "muld")
_add("fsrc_ac", 0o171400, "modf", "modd")
_add("fsrc_ac", 0o172000, "addf", "addd")
_add("fsrc_ac", 0o172400, "ldf", "ldd")
_add("fsrc_ac", 0o173000, "subf", "subd")
_add("fsrc_ac", 0o173400, "cmpf", "cmpd")
_add("ac_fdst", 0o174000, "stf", "std")
_add("fsrc_ac", 0o174400, "divf", "divd")
_add("ac_dst", 0o175000, "stexp")
_add("ac_dst", 0o175400, "stcfi", "stcfl", "stcdi", "stcdl")
_add("ac_fdst", 0o176000, "stcfd", "stcdf")
_add("src_ac", 0o176400, "ldexp")
_add("src_ac", 0o177000, "ldcif", "ldcid", "ldclf", "ldcld")
_add("fsrc_ac", 0o177400, "ldcfd", "ldcdf")

# -- pseudo instructions: defined by the instruction they stand for ------------------------------
PSEUDO = {
    "push": ("mov", lambda ops: [ops[0], ("dec", 6)]),      # mov src,-(sp)
    "pop": ("mov", lambda ops: [("inc", 6), ops[0]]),       # mov (sp)+,dst
    "call": ("jsr", lambda ops: [("reg", 7), ops[0]]),      # jsr pc,dst
    "callr": ("jmp", lambda ops: [ops[0]]),                 # jmp dst
    "ret": ("rts", lambda ops: [("reg", 7)]),               # rts pc
    "return": ("rts", lambda ops: [("reg", 7)]),
}
PSEUDO_SIG = {"push": ["G"], "pop": ["G"], "call": ["G"], "callr": ["G"], "ret": [], "return": []}

SIGNATURE = {
    "none": [], "dd": ["G"], "ssdd": ["G", "G"], "rdd": ["R", "G"], "ssr": ["G", "R"], "r": ["R"],
    "br": ["B"], "sob": ["R", "S"], "n8": ["N8"], "n6": ["N6"], "n3": ["N3"],
    "f1": ["F"], "fsrc_ac": ["F", "A"], "ac_fdst": ["A", "F"], "src_ac": ["G", "A"], "ac_dst": ["A", "G"],
}

MASK = {
    "none": 0xFFFF, "dd": 0xFFC0, "ssdd": 0xF000, "rdd": 0xFE00, "ssr": 0xFE00, "r": 0xFFF8,
    "br": 0xFF00, "sob": 0xFE00, "n8": 0xFF00, "n6": 0xFFC0, "n3": 0xFFF8,
    "f1": 0xFFC0, "fsrc_ac": 0xFF00, "ac_fdst": 0xFF00, "src_ac": 0xFF00, "ac_dst": 0xFF00,
}


def mnemonics():
    return sorted(set(TABLE) | set(PSEUDO))


def signature(mn):
    mn = mn.lower()
    if mn in PSEUDO:
        return PSEUDO_SIG[mn]
    return SIGNATURE[TABLE[mn][0]]


def canonical(mn, ops):
    """(canonical mnemonic, operands) with pseudo instructions expanded"""
    mn = mn.lower()
    if mn in PSEUDO:
        real, f = PSEUDO[mn]
        return real, f(list(ops))
    return TABLE[mn][2], list(ops)


class EncodeError(Exception):
    def __init__(self, kind, msg=""):
        super().__init__(f"{kind}: {msg}")
        self.kind = kind


def _word_ok(x):
    # a 16-bit operand word accepts |x| < 2^16 and stores x mod 2^16
    if not -0x10000 < x < 0x10000:
        raise EncodeError("value-out-of-bounds", f"operand word {x}")
    return x & M16


MODES = {"reg": 0, "ind": 1, "inc": 2, "incd": 3, "dec": 4, "decd": 5, "idx": 6, "idxd": 7}


def _general(op, ext_addr, fp=False):
    """-> (6-bit field, [extension words]) ; ext_addr = address the extension word would get"""
    k = op[0]
    if k == "ac":
        if not fp:
            raise EncodeError("form", "accumulator in a non-FP position")
        return op[1], []
    if k in ("reg", "ind", "inc", "incd", "dec", "decd"):
        return MODES[k] << 3 | op[1], []
    if k in ("idx", "idxd"):
        return MODES[k] << 3 | op[1], [_word_ok(op[2])]
    if k == "imm":
        return 0o27, [_word_ok(op[1])]
    if k == "abs":
        return 0o37, [_word_ok(op[1])]
    if k == "rel":
        return 0o67, [(op[1] - ext_addr - 2) & M16]
    if k == "reld":
        return 0o77, [(op[1] - ext_addr - 2) & M16]
    raise EncodeError("form", str(op))


def encode(mn, ops, addr):
    """-> list of 16-bit words.  Raises EncodeError(kind) for operands the ISA cannot hold:
    kinds 'value-out-of-bounds', 'branch-out-of-bounds', 'odd-branch'."""
    mn, ops = canonical(mn, ops)
    fmt, base, _ = TABLE[mn]
    if fmt == "none":
        return [base]
    if fmt in ("dd", "f1"):
        f, ext = _general(ops[0], addr + 2, fp=fmt == "f1")
        return [base | f] + ext
    if fmt == "ssdd":
        f0, e0 = _general(ops[0], addr + 2)
        f1, e1 = _general(ops[1], addr + 2 + 2 * len(e0))
        return [base | f0 << 6 | f1] + e0 + e1
    if fmt == "rdd":
        f, ext = _general(ops[1], addr + 2)
        return [base | _regno(ops[0]) << 6 | f] + ext
    if fmt == "ssr":
        f, ext = _general(ops[0], addr + 2)
        return [base | _regno(ops[1]) << 6 | f] + ext
    if fmt == "r":
        return [base | _regno(ops[0])]
    if fmt == "br":
        d = ops[0][1] - (addr + 2)
        errs = []
        if not -256 <= d <= 254:
            errs.append("branch-out-of-bounds")
        if d % 2:
            errs.append("odd-branch")
        if errs:
            raise EncodeError(errs[0], f"distance {d} " + ",".join(errs))
        return [base | (d >> 1) & 0xFF]
    if fmt == "sob":
        d = ops[1][1] - (addr + 2)
        errs = []
        if not -126 <= d <= 0:
            errs.append("branch-out-of-bounds")
        if d % 2:
            errs.append("odd-branch")
        if errs:
            raise EncodeError(errs[0], f"distance {d} " + ",".join(errs))
        return [base | _regno(ops[0]) << 6 | (-d >> 1) & 0x3F]
    if fmt in ("n8", "n6", "n3"):
        bits = int(fmt[1])
        v = ops[0][1]
        if fmt == "n8":
            # trap/emt numbers: pdpy11 documents a signed field (-(2^8-1) .. 2^8-1 stored mod 2^8)
            if not -255 <= v <= 255:
                raise EncodeError("value-out-of-bounds", f"{v}")
        elif not 0 <= v < (1 << bits):
            raise EncodeError("value-out-of-bounds", f"{v}")
        return [base | v & ((1 << bits) - 1)]
    if fmt in ("fsrc_ac", "src_ac"):
        f, ext = _general(ops[0], addr + 2, fp=fmt == "fsrc_ac")
        return [base | _acno(ops[1]) << 6 | f] + ext
    if fmt in ("ac_fdst", "ac_dst"):
        f, ext = _general(ops[1], addr + 2, fp=fmt == "ac_fdst")
        return [base | _acno(ops[0]) << 6 | f] + ext
    raise AssertionError(fmt)


def _regno(op):
    if op[0] not in ("reg", "num") or not 0 <= op[1] <= 7:
        raise EncodeError("value-out-of-bounds", f"register {op}")
    return op[1]


def _acno(op):
    if op[0] != "ac" or not 0 <= op[1] <= 3:
        raise EncodeError("form", f"accumulator {op}")
    return op[1]


# ---------------------------------------------------------------------------
# decoder

_CANON = sorted(((MASK[fmt], base, name, fmt) for name, (fmt, base, canon) in TABLE.items() if name == canon),
                key=lambda t: (-bin(t[0]).count("1"), t[1]))


def find(word):
    """all canonical rows matching the first word, most specific mask first"""
    hits = [(m, b, n, f) for (m, b, n, f) in _CANON if word & m == b]
    if not hits:
        return None
    best = bin(hits[0][0]).count("1")
    top = [h for h in hits if bin(h[0]).count("1") == best]
    if len(top) > 1:
        raise AssertionError(f"ambiguous table rows for {word:06o}: {top}")
    return top[0]


def _dec_general(field, words, pos, ext_addr, fp=False):
    """-> (operand, words used)"""
    mode, reg = field >> 3, field & 7
    if mode == 0:
        return (("ac", reg) if fp else ("reg", reg)), 0
    if reg == 7 and mode in (2, 3, 6, 7):
        if pos >= len(words):
            raise DecodeError("extension word missing")
        w = words[pos]
        if mode == 2:
            return ("imm", w), 1
        if mode == 3:
            return ("abs", w), 1
        ea = (ext_addr + 2 + w) & M16
        return (("rel", ea) if mode == 6 else ("reld", ea)), 1
    if mode in (6, 7):
        if pos >= len(words):
            raise DecodeError("extension word missing")
        return (("idx", reg, words[pos]) if mode == 6 else ("idxd", reg, words[pos])), 1
    return ({1: "ind", 2: "inc", 3: "incd", 4: "dec", 5: "decd"}[mode], reg), 0


class DecodeError(Exception):
    pass


def decode(words, addr):
    """-> (canonical mnemonic, operands, words consumed)"""
    w = words[0]
    row = find(w)
    if row is None:
        raise DecodeError(f"{w:06o} is not an instruction of the table")
    _, base, name, fmt = row
    if fmt == "none":
        return name, [], 1
    if fmt in ("dd", "f1"):
        op, n = _dec_general(w & 0o77, words, 1, addr + 2, fp=fmt == "f1")
        return name, [op], 1 + n
    if fmt == "ssdd":
        o0, n0 = _dec_general(w >> 6 & 0o77, words, 1, addr + 2)
        o1, n1 = _dec_general(w & 0o77, words, 1 + n0, addr + 2 + 2 * n0)
        return name, [o0, o1], 1 + n0 + n1
    if fmt == "rdd":
        op, n = _dec_general(w & 0o77, words, 1, addr + 2)
        return name, [("reg", w >> 6 & 7), op], 1 + n
    if fmt == "ssr":
        op, n = _dec_general(w & 0o77, words, 1, addr + 2)
        return name, [op, ("reg", w >> 6 & 7)], 1 + n
    if fmt == "r":
        return name, [("reg", w & 7)], 1
    if fmt == "br":
        off = w & 0xFF
        if off & 0x80:
            off -= 0x100
        return name, [("tgt", (addr + 2 + 2 * off) & M16)], 1
    if fmt == "sob":
        return name, [("reg", w >> 6 & 7), ("tgt", (addr + 2 - 2 * (w & 0o77)) & M16)], 1
    if fmt == "n8":
        return name, [("num", w & 0xFF)], 1
    if fmt == "n6":
        return name, [("num", w & 0o77)], 1
    if fmt == "n3":
        return name, [("num", w & 7)], 1
    if fmt in ("fsrc_ac", "src_ac"):
        op, n = _dec_general(w & 0o77, words, 1, addr + 2, fp=fmt == "fsrc_ac")
        return name, [op, ("ac", w >> 6 & 3)], 1 + n
    if fmt in ("ac_fdst", "ac_dst"):
        op, n = _dec_general(w & 0o77, words, 1, addr + 2, fp=fmt == "ac_fdst")
        return name, [("ac", w >> 6 & 3), op], 1 + n
    raise AssertionError(fmt)


def normalize(mn, ops, addr):
    """what decode() must return for (mn, ops) assembled at addr: canonical name and operands with
    values reduced mod 2^16, x(pc) forms expressed as PC-relative effective addresses."""
    name, ops = canonical(mn, ops)
    fmt = TABLE[name][0]
    res = []
    ext = 0
    for i, op in enumerate(ops):
        k = op[0]
        ext_addr = addr + 2 + 2 * ext
        if k in ("idx", "idxd"):
            if op[1] == 7:
                res.append(("rel" if k == "idx" else "reld", (ext_addr + 2 + op[2]) & M16))
            else:
                res.append((k, op[1], op[2] & M16))
            ext += 1
        elif k in ("imm", "abs"):
            res.append((k, op[1] & M16))
            ext += 1
        elif k in ("rel", "reld"):
            res.append((k, op[1] & M16))
            ext += 1
        elif k == "tgt":
            res.append(("tgt", op[1] & M16))
        elif k == "num":
            sig = SIGNATURE[fmt][i]
            if sig == "R":
                res.append(("reg", op[1]))
            else:
                bits = int(sig[1])
                res.append(("num", op[1] & ((1 << bits) - 1)))
        elif k == "reg" and fmt in ("f1", "fsrc_ac", "ac_fdst") and SIGNATURE[fmt][i] == "F":
            res.append(("ac", op[1]))
        else:
            res.append(tuple(op))
    return name, res


def self_check():
    """encoder o decoder = identity on every first word that decodes (with sampled extension words);
    returns the number of first words that decode."""
    n = 0
    for w in range(0x10000):
        if find(w) is None:
            continue
        n += 1
        for ext in ((0, 0), (0o123456, 0o177777), (2, 0o100000)):
            for addr in (0o1000, 0o77776):
                words = [w, ext[0], ext[1]]
                name, ops, used = decode(words, addr)
                fmt = TABLE[name][0]
                # mode 2/3 on pc inside an FP/general field decodes to imm/abs: encode them back
                try:
                    again = encode(name, ops, addr)
                except EncodeError as ex:
                    raise AssertionError(f"{w:06o}: decoded {name} {ops} does not encode: {ex}")
                assert again == words[:used], (oct(w), name, ops, again, words[:used])
    return n
