"""R2 - independent expression evaluator over the harness' own AST (never parses pdpy11 syntax).

AST (tuples):
  ("num", v)                 integer literal (any sign); spelling is the renderer's business
  ("bad8", digits)           bare digit string containing 8/9  -> invalid-number
  ("sym", name)              ordinary symbol       ("loc", name)  local label reference
  ("dot",)                   location counter
  ("chr", s)  ("chr2", s)    'c and "cc literals    ("r50", s)  ^Rccc literal
  ("un", op, a)              op in + - ~
  ("bin", op, a, b)          op in + - * / % << >> _ & ^ | !

Values are affine in the (possibly still unknown) link base:  Val(k, c) = k*BASE + c.
Only + - and multiplication by a base-free value keep k; every other operator needs the
concrete value and forces the base through env.force().
"""
from .codecs import rad50_pack

INFIX = ["+", "-", "*", "/", "%", "<<", ">>", "_", "&", "^", "|", "!"]
PREC = {"*": 3, "/": 3, "%": 3, "+": 4, "-": 4, "<<": 5, ">>": 5, "_": 5, "&": 8, "^": 9, "|": 10, "!": 10}
UNARY_PREC = 2


class EvalError(Exception):
    def __init__(self, kind, msg=""):
        super().__init__(f"{kind}: {msg}")
        self.kind = kind


class Val:
    __slots__ = ("k", "c")

    def __init__(self, k, c):
        self.k = k
        self.c = c

    def __repr__(self):
        return f"Val({self.k},{self.c})"


def const(c):
    return Val(0, c)


def binop(op, a, b):
    """plain integers"""
    if op == "+":
        return a + b
    if op == "-":
        return a - b
    if op == "*":
        return a * b
    if op == "/":
        if b == 0:
            raise EvalError("arithmetic-error", "division by zero")
        return a // b  # floors toward minus infinity
    if op == "%":
        if b == 0:
            raise EvalError("arithmetic-error", "modulo by zero")
        return a % b
    if op == "<<":
        if b < 0:
            raise EvalError("arithmetic-error", "negative shift count")
        return a << b
    if op == ">>":
        if b < 0:
            raise EvalError("arithmetic-error", "negative shift count")
        return a >> b
    if op == "_":
        return a << b if b >= 0 else a >> -b
    if op == "&":
        return a & b
    if op == "^":
        return a ^ b
    if op in ("|", "!"):
        return a | b
    raise ValueError(op)


class Env:
    """Override sym/loc/dot/force.  charset is a Python codec name."""
    charset = "ascii"

    def sym(self, name):
        raise EvalError("undefined-symbol", name)

    def loc(self, name):
        raise EvalError("undefined-symbol", name)

    def dot(self):
        raise EvalError("undefined-symbol", ".")

    def force(self, v):
        if v.k:
            raise EvalError("cycle", "base needed")
        return v.c


def ev(e, env):
    """-> Val"""
    t = e[0]
    if t == "num":
        return const(e[1])
    if t == "bad8":
        raise EvalError("invalid-number", e[1])
    if t == "sym":
        return env.sym(e[1])
    if t == "loc":
        return env.loc(e[1])
    if t == "dot":
        return env.dot()
    if t in ("chr", "chr2"):
        try:
            b = e[1].encode(env.charset)
        except UnicodeEncodeError:
            raise EvalError("invalid-character", e[1])
        if len(b) > 2:
            raise EvalError("too-long-string", e[1])
        b = b.ljust(2, b"\0")
        return const(b[0] | b[1] << 8)
    if t == "r50":
        if not 1 <= len(e[1]) <= 3:
            raise EvalError("invalid-string", e[1])
        return const(rad50_pack(e[1])[0])
    if t == "un":
        a = ev(e[2], env)
        if e[1] == "+":
            return a
        if e[1] == "-":
            return Val(-a.k, -a.c)
        if e[1] == "~":
            return const(~env.force(a))
        raise ValueError(e[1])
    if t == "bin":
        op = e[1]
        a = ev(e[2], env)
        b = ev(e[3], env)
        if op == "+":
            return Val(a.k + b.k, a.c + b.c)
        if op == "-":
            return Val(a.k - b.k, a.c - b.c)
        if op == "*":
            if a.k == 0:
                return Val(b.k * a.c, b.c * a.c)
            if b.k == 0:
                return Val(a.k * b.c, a.c * b.c)
        if op == "<<" and b.k == 0 and b.c >= 0 and a.k:
            return Val(a.k << b.c, a.c << b.c)  # a * 2**b stays affine
        if op == ">>" and b.k == 0 and b.c == 0:
            return a
        return const(binop(op, env.force(a), env.force(b)))
    raise ValueError(t)


def ev_int(e, env):
    return env.force(ev(e, env))


def walk(e):
    yield e
    if e[0] == "un":
        yield from walk(e[2])
    elif e[0] == "bin":
        yield from walk(e[2])
        yield from walk(e[3])


def depth(e):
    if e[0] == "un":
        return 1 + depth(e[2])
    if e[0] == "bin":
        return 1 + max(depth(e[2]), depth(e[3]))
    return 0
