import argparse
import os
import sys
import traceback

HERE = os.path.dirname(os.path.dirname(os.path.abspath(__file__)))
for deps in (os.path.join(HERE, ".deps"), "/verif/.deps"):
    if os.path.isdir(deps):
        sys.path.insert(0, deps)
        break
sys.path.insert(0, HERE)
sys.dont_write_bytecode = True


def main():
    ap = argparse.ArgumentParser()
    ap.add_argument("property")
    ap.add_argument("--tier", default=os.environ.get("VERIF_TIER", "quick"), choices=["quick", "thorough"])
    ap.add_argument("--replay")
    args = ap.parse_args()
    try:
        seed = int(os.environ.get("VERIF_SEED", "1"))
    except ValueError:
        seed = 1
    from vf import core
    try:
        rc = core.run_property(args.property.upper(), args.tier, seed, args.replay)
    except core.HarnessError as ex:
        print(f"HARNESS-ERROR {args.property}: {ex}", file=sys.stderr)
        sys.exit(2)
    except Exception:  # noqa
        traceback.print_exc()
        print(f"HARNESS-ERROR {args.property}: unexpected exception in the machinery", file=sys.stderr)
        sys.exit(2)
    sys.exit(rc)


if __name__ == "__main__":
    main()
