"""Runner: sharding, seeds, evidence, VIOLATION / KNOWN-FINDING lines, replay.

A property module (vf/props/cNN.py) exposes

    ID, LEVEL, RULE, ASSUMPTIONS
    shards(tier)            -> list of JSON-able shard specs
    run_shard(spec, ctx)    -> None; reports through ctx (ShardCtx)
    replay(case)            -> list of (signature, message) that still fail

Everything a shard does is a pure function of (tree, VERIF_SEED, spec).
"""
import collections
import hashlib
import importlib
import json
import multiprocessing
import os
import sys
import time
import traceback

HERE = os.path.dirname(os.path.dirname(os.path.abspath(__file__)))
REPO = os.environ.get("VERIF_REPO", "/repo")
MAX_SAMPLES = 8


class HarnessError(Exception):
    """The machinery itself is broken (exit status 2, never a VIOLATION)."""


class StopSearch(Exception):
    """Raised by a check function to end its shard early (e.g. after a confirmed hang every further case would cost the watchdog time)."""


class StopSearch(Exception):
    """Raised by a check function to end its shard early (e.g. after a confirmed hang every further case would cost the watchdog time)."""


class Inconclusive(Exception):
    """A case hit the time budget: counted, never a violation."""


def digest(obj):
    if not isinstance(obj, bytes):
        obj = json.dumps(obj, sort_keys=True, default=repr).encode()
    return hashlib.sha1(obj).digest()[:8]


def seed_for(*parts):
    h = hashlib.sha256(repr(parts).encode()).digest()
    return int.from_bytes(h[:8], "big")


class ShardCtx:
    def __init__(self, pid, tier, seed, spec, known_signatures):
        self.pid = pid
        self.tier = tier
        self.seed = seed
        self.spec = spec
        self.known_signatures = set(known_signatures)
        self.evaluations = 0
        self.nontrivial = set()
        self.classes = collections.Counter()
        self.samples = []
        self.sample_classes = set()
        self.failures = {}
        self.known_hits = collections.Counter()
        self.excluded = collections.Counter()
        self.extra = {}

    # ---- bookkeeping -------------------------------------------------
    def case(self, key, nontrivial=True, labels=(), sample=None, evaluations=1):
        """Record one executed case. key identifies the case (distinctness)."""
        self.evaluations += evaluations
        if nontrivial:
            self.nontrivial.add(digest(key))
        for lab in labels:
            self.classes[lab] += 1
        if sample is not None:
            labs = tuple(labels)
            novel = any(l not in self.sample_classes for l in labs) or not labs
            if len(self.samples) < MAX_SAMPLES and (novel or len(self.samples) < 3):
                self.samples.append(sample)
                self.sample_classes.update(labs)

    def exclude(self, why, n=1):
        self.excluded[why] += n

    def is_known(self, signature):
        return signature in self.known_signatures

    def fail(self, signature, message, case):
        """Record a failure; keeps the smallest case per signature."""
        if signature in self.known_signatures:
            self.known_hits[signature] += 1
            return
        size = len(json.dumps(case, default=repr))
        old = self.failures.get(signature)
        if old is None or size < old[0]:
            self.failures[signature] = (size, message, case)

    def result(self):
        return {
            "evaluations": self.evaluations,
            "nontrivial": list(self.nontrivial),
            "classes": dict(self.classes),
            "samples": self.samples,
            "failures": {k: [v[1], v[2]] for k, v in self.failures.items()},
            "known_hits": dict(self.known_hits),
            "excluded": dict(self.excluded),
            "extra": self.extra,
        }


def _worker(args):
    modname, pid, tier, seed, spec, known = args
    try:
        import resource
        # a mutated tree can ask for astronomically large integers; fail such a case instead of the machine
        resource.setrlimit(resource.RLIMIT_AS, (6 << 30, 6 << 30))
    except Exception:  # noqa
        pass
    try:
        mod = importlib.import_module(modname)
        ctx = ShardCtx(pid, tier, seed, spec, known)
        mod.run_shard(spec, ctx)
        return ("ok", ctx.result())
    except BaseException:  # noqa
        return ("harness", traceback.format_exc())


def load_known():
    path = os.path.join(HERE, "known_findings.json")
    if not os.path.exists(path):
        return []
    with open(path) as f:
        return json.load(f)["findings"]


def write_replay(pid, signature, message, case, seed, tier):
    d = os.path.join(os.environ.get("VERIF_REPLAY_DIR", os.path.join(HERE, "replays")), pid)
    os.makedirs(d, exist_ok=True)
    body = {"property": pid, "signature": signature, "message": message,
            "case": case, "seed": seed, "tier": tier}
    text = json.dumps(body, indent=1, sort_keys=True, default=repr)
    name = hashlib.sha1(text.encode()).hexdigest()[:12] + ".json"
    path = os.path.join(d, name)
    with open(path, "w") as f:
        f.write(text)
    return os.path.relpath(path, HERE) if path.startswith(HERE + os.sep) else path


def run_pool(tasks, procs=None):
    procs = procs or min(16, max(1, len(tasks)))
    ctx = multiprocessing.get_context("fork")
    with ctx.Pool(procs, maxtasksperchild=1) as pool:
        return pool.map(_worker, tasks, chunksize=1)


def run_property(pid, tier, seed, replay_path=None):
    t0 = time.time()
    modname = "vf.props." + pid.lower()
    mod = importlib.import_module(modname)
    known_entries = [k for k in load_known() if k["property"] == pid and k["status"] == "known"]

    if replay_path:
        with open(replay_path) as f:
            body = json.load(f)
        fails = mod.replay(body["case"])
        if fails:
            for sig, msg in fails:
                print(f"replay: still failing: {sig}: {msg}")
            print(f"VIOLATION property={pid} replay={replay_path}")
            return 1
        print(f"replay: case passes on this tree ({pid})")
        return 0

    # Replay known findings first: those still present are announced and excluded.
    known_sigs = []
    for entry in known_entries:
        fails = mod.replay(entry["case"])
        sigs = [s for s, _ in fails]
        if entry["signature"] in sigs:
            print(f"KNOWN-FINDING: property={pid} {entry['what']}")
            known_sigs.append(entry["signature"])
        # a finding that no longer reproduces suppresses nothing

    # replay tier: committed regression cases (minimal inputs of repaired findings, boundary cases) run before any generation
    corpus_fails = {}
    corpus_n = 0
    cdir = os.path.join(HERE, "corpus", pid)
    if os.path.isdir(cdir):
        for fn in sorted(os.listdir(cdir)):
            if not fn.endswith(".json"):
                continue
            with open(os.path.join(cdir, fn)) as f:
                body = json.load(f)
            corpus_n += 1
            for sig, msg in mod.replay(body["case"]):
                if sig not in known_sigs:
                    corpus_fails[f"corpus:{fn[:-5]}:{sig}"] = (0, f"regression case corpus/{pid}/{fn} ({body.get('what', '')}): {msg}", body["case"])

    specs = mod.shards(tier)
    tasks = [(modname, pid, tier, seed, spec, known_sigs) for spec in specs]
    results = run_pool(tasks, getattr(mod, "PROCS", None))

    total = collections.Counter()
    nontrivial = set()
    classes = collections.Counter()
    samples = []
    failures = dict(corpus_fails)
    known_hits = collections.Counter()
    excluded = collections.Counter()
    extra = {"corpus_cases_replayed": corpus_n}
    total["evaluations"] += corpus_n
    for status, res in results:
        if status != "ok":
            sys.stderr.write(res)
            raise HarnessError("shard crashed inside the harness")
        total["evaluations"] += res["evaluations"]
        nontrivial.update(bytes(x) if not isinstance(x, bytes) else x for x in res["nontrivial"])
        classes.update(res["classes"])
        samples.append(list(res["samples"]))
        for sig, (msg, case) in res["failures"].items():
            size = len(json.dumps(case, default=repr))
            if sig not in failures or size < failures[sig][0]:
                failures[sig] = (size, msg, case)
        known_hits.update(res["known_hits"])
        excluded.update(res["excluded"])
        for k, v in res["extra"].items():
            if isinstance(v, (int, float)):
                extra[k] = extra.get(k, 0) + v
            elif isinstance(v, list):
                extra.setdefault(k, [])
                for item in v:
                    if item not in extra[k]:
                        extra[k].append(item)
            elif isinstance(v, dict):
                extra.setdefault(k, {})
                for kk, vv in v.items():
                    if isinstance(vv, (int, float)):
                        extra[k][kk] = extra[k].get(kk, 0) + vv
                    else:
                        extra[k][kk] = vv
            else:
                extra[k] = v

    if hasattr(mod, "finalize"):
        # property-specific post-processing (coverage floors etc.)
        mod.finalize(tier, classes, extra)

    # interleave the shards' samples so every part of the check is represented
    merged = []
    depth = 0
    while len(merged) < MAX_SAMPLES * 3 and any(len(s) > depth for s in samples):
        for s in samples:
            if len(s) > depth and len(merged) < MAX_SAMPLES * 3 and s[depth] not in merged:
                merged.append(s[depth])
        depth += 1
    samples = merged
    wall = time.time() - t0
    coverage = {
        "evaluations": total["evaluations"],
        "distinct_nontrivial": len(nontrivial),
        "rule": mod.RULE,
        "samples": samples,
        "classes": dict(sorted(classes.items())),
        "shards": len(specs),
        "excluded_by_construction": dict(excluded),
        "known_finding_hits": dict(known_hits),
    }
    if getattr(mod, "EXHAUSTIVE", False):
        coverage["exhaustive"] = True
    coverage.update(extra)
    evidence = {
        "property_id": pid,
        "tier": tier,
        "seed": seed,
        "level": mod.LEVEL,
        "coverage": coverage,
        "assumptions": list(mod.ASSUMPTIONS),
        "wall_s": round(wall, 2),
        "violations": len(failures),
    }
    evdir = os.environ.get("VERIF_EVIDENCE_DIR", os.path.join(HERE, "evidence"))   # the mutant tools redirect this
    os.makedirs(evdir, exist_ok=True)
    with open(os.path.join(evdir, pid + ".json"), "w") as f:
        json.dump(evidence, f, indent=1, sort_keys=True, default=repr)

    if not samples and not failures:
        raise HarnessError("no sample cases were recorded")
    floor = getattr(mod, "MIN_NONTRIVIAL", 2)
    if not failures and len(nontrivial) < floor:
        raise HarnessError(f"generator degenerate: only {len(nontrivial)} distinct non-trivial cases")

    print(f"{pid} tier={tier} seed={seed} evaluations={total['evaluations']} "
          f"distinct_nontrivial={len(nontrivial)} wall={wall:.1f}s violations={len(failures)}")
    if failures:
        for sig, (_, msg, case) in sorted(failures.items()):
            path = write_replay(pid, sig, msg, case, seed, tier)
            print(f"  failure [{sig}]: {msg[:300]}")
            print(f"VIOLATION property={pid} replay={path}")
        return 1
    return 0


# ---- Hypothesis helper: collect-then-shrink over signatures ------------------

def hyp_search(ctx, strategy, check, examples, label, max_buckets=4, shrink=True):
    """Run `check(value)` over `examples` draws of `strategy`.

    check returns None (pass) or (signature, message, case).  A failure whose
    signature is known/excluded counts as passed so the search goes on behind
    it; a new signature is shrunk by Hypothesis, recorded, excluded, and the
    remaining budget is spent looking for other signatures.
    """
    import hypothesis
    from hypothesis import given, settings, seed, HealthCheck, Phase

    excluded = set()
    remaining = examples
    rounds = 0

    class Found(Exception):
        pass

    while remaining > 0 and rounds <= max_buckets:
        state = {"last": None, "n": 0}

        def body(value):
            state["n"] += 1
            try:
                res = check(value)
            except Inconclusive as ex:
                ctx.exclude("inconclusive:" + str(ex)[:40])
                return
            if res is None:
                return
            sig = res[0]
            if sig in excluded:
                return
            if ctx.is_known(sig):
                ctx.known_hits[sig] += 1
                return
            state["last"] = res
            raise Found(sig)

        phases = [Phase.generate, Phase.target]
        if shrink and not os.environ.get("VERIF_NO_SHRINK"):     # tools/seed.py and tools/mut.py only need the verdict
            phases.append(Phase.shrink)
        test = given(strategy)(body)
        test = seed(seed_for(ctx.seed, label, ctx.spec, rounds))(test)
        test = settings(max_examples=remaining, database=None, deadline=None,
                        derandomize=False, report_multiple_bugs=False,
                        phases=phases, print_blob=False,
                        suppress_health_check=list(HealthCheck))(test)
        try:
            test()
        except StopSearch:
            ctx.exclude("search-stopped-early")
            break
        except Found:
            sig, msg, case = state["last"]
            ctx.fail(sig, msg, case)
            excluded.add(sig)
        except hypothesis.errors.Flaky as ex:  # non-determinism inside the property
            if state["last"] is not None:
                sig, msg, case = state["last"]
                ctx.fail(sig, msg + " [flaky under shrinking]", case)
                excluded.add(sig)
            else:
                raise HarnessError("Hypothesis reports flakiness without a failure") from ex
        else:
            break
        remaining -= state["n"]
        rounds += 1
