#!/usr/bin/env python3
"""Writes corpus/<ID>/*.json: minimal inputs of repaired findings as plain regression cases (expected values are
hand-computed / from the reference encoders, never taken from pdpy11)."""
import json, os, struct, sys
HERE = os.path.dirname(os.path.dirname(os.path.abspath(__file__)))
sys.path.insert(0, HERE)
from vf.ref import pdp11 as P


def w(*words):
    return b"".join(struct.pack("<H", x & 0xFFFF) for x in words).hex()


def single(text, name="main.mac"):
    return {"tree": {name: text}, "mains": [name], "charset": "bk"}


def ok(text, code, base=None):
    c = single(text); c["kind"] = "expect"; c["expect"] = {"kind": "ok", "base": base, "code": code}; return c


def err(text, ids, tree=None, mains=None):
    c = single(text) if tree is None else {"tree": tree, "mains": mains, "charset": "bk"}
    c["kind"] = "expect"; c["expect"] = {"kind": "error", "ids": ids, "all": True}; return c


def equiv(*texts):
    return {"kind": "equiv", "variants": [single(t) for t in texts]}


CASES = {
    "C16": {
        "repeat-hoist-index": ("F1: 2nd copy of an indexed operand became PC-relative", equiv("a = 4\n\t.repeat 2 { clr a+2(r1) }\n", "a = 4\n\tclr a+2(r1)\n\tclr a+2(r1)\n")),
        "repeat-hoist-deferred": ("F1", ok("\t.repeat 2 { clr @0(r0) }\n", w(0o005070, 0, 0o005070, 0))),
        "repeat-impure-operator": ("F2: / % << >> cached on the token", ok("\t.repeat 3 { .word ./2 }\n", w(0o400, 0o401, 0o402))),
    },
    "C04": {
        "branch-decimal-offset": ("F7", ok("l:\tnop\n\tbr l+10.\n", w(0o240, 0o403))),
        "branch-angle-group": ("F7", ok("l:\tbr <l+2>\n", w(0o400))),
        "sob-decimal": ("F7", ok("l:\tsob r1, l-2.\n", w(0o077102))),
    },
    "C10": {
        "branch-group-styles": ("bracket groups in a branch operand", equiv("\tbr (.) + 2\n\tnop\n", "\tbr <.> + 2\n\tnop\n", "\tbr ^/./ + 2\n\tnop\n")),
    },
    "C12": {
        "late-skip": ("'. =' skip evaluated late", ok("\t. = 1000\n\t. = . + n\n\tnop\nn = 4\n", "00000000" + w(0o240), base=0o1000)),
        "cancel-through-symbol": ("base through a forward difference symbol", ok("d = lab - lab\n\t. = 2000 + d\nlab:\tnop\n", w(0o240), base=0o2000)),
        "negative-skip-target": ("'. = . - 4' right behind '.link 0': the negative target wrapped to 177776 and 64K of zeros were written (reported by a sub-agent while seeding)", err("\t.link 0\n\tnop\n\t. = . - 4\n\tnop\n", ["value-out-of-bounds"])),
        "gap-between-base-labels": ("a '. =' gap between the labels of a cancelling base was reported as a self-dependent base (reported by a sub-agent while seeding)", ok("\t.link 2000 + e - s\ns:\tnop\n\t. = . + size\ne:\tnop\nsize = 4\n", w(0o240, 0, 0, 0o240), base=0o2006)),
        "cancel-through-aliases": ("alias symbols and a label of another file", {"kind": "expect", "tree": {"a.mac": "pb = ma\npa = mb\n\t.link 2000 + (pa - pb)\nma::\n\t.word ma, .\n", "b.mac": "mb::\n\tnop\n"},
                                   "mains": ["a.mac", "b.mac"], "charset": "bk", "expect": {"kind": "ok", "base": 0o2004, "code": w(0o2004, 0o2004, 0o240)}}),
    },
    "C02": {
        "repeat-late-count-forward-label": ("DeferredCycle from an eager attempt inside a repeat", ok("\t.repeat n { mov @#lab, r0 }\nlab:\tnop\nn = 3\n", w(0o013700, 0o1014, 0o013700, 0o1014, 0o013700, 0o1014, 0o240))),
    },
    "C08": {
        "include-error-promise": ("error inside an included file left its promise unsettled", err(None, ["value-out-of-bounds"], {"m.mac": "\t.include \"i.mac\"\n\tnop\n", "i.mac": "x:\tnop\n\tclr #200000\n"}, ["m.mac"])),
        "align-zero": ("F6", err("\t.align 0\n", ["value-out-of-bounds"])),
        "double-deferred-label": ("F11", err("a:\tclr @@a\n", ["unexpected-value"])),
        "self-definition": ("F9", err("a = a\n\t.word a\n", ["recursive-definition"])),
        "self-definition-plus": ("F9 variant", err("a = a + 6\n", ["recursive-definition"])),
        "mutual-definition": ("F9", err("a = b\nb = a\n", ["recursive-definition"])),
        "size-cycle": ("F10", err("\t.blkb e\ne:\n", ["recursive-definition"])),
        "stray-code-block": ("F8", err("\tmov #1 { nop }\n", ["wrong-operands"])),
        "repeat-comma-block": ("F8", err("\t.repeat 2, 3 { nop }\n", ["wrong-meta-operands"])),
        "tape-name-unencodable": ("tape name not encodable", err("\tmake_wav 'abcdefghijklmnoα.wav'\n", ["invalid-character"])),
        "backslash-at-eof": ("escape at end of input", err("\t.ascii \"abc\\", ["invalid-escape"])),
        "bad-hex-escape": ("incomplete \\x escape", err("\t.ascii \"ab\\xZ\"\n", ["invalid-escape"])),
        "extern-all-clash": ("F5", err("\t.extern all\nq0::\tnop\n", ["duplicate-symbol"])),
        "nul-include-path": ("file name with a NUL character (atheris campaign)", err("\t.include <0>\n", ["io-error"])),
        "nul-insert-path": ("file name with a NUL character (atheris campaign)", err("\tinsert_file /a<0>b/\n", ["io-error"])),
        "link-cycle-self-symbol": ("repr of a self-referential symbol in the link-base cycle message (atheris campaign)", err("\t.link 1000 + . - y\ny = y\n", ["recursive-definition"])),
        "non-ascii-digit-9": ("str.isdigit() digit that int(s, 8) rejects (atheris campaign)", err("\tmov r1, r2\u0d6f\n", [])),
        "angle-code-overflow": ("chr() OverflowError (reported by a sub-agent while seeding)", err("\tinsert_file /zz/ <20000000000000>\n", ["value-out-of-bounds"])),
        "caret-r-kelvin": ("U+212A matched the case-insensitive ^R regex (reported by a sub-agent while seeding)", err("\t.word ^R\u212a\n", [])),
        "align-huge": ("OverflowError building the zero fill of '.align <huge>' (statement grid, thorough tier)", err("x = 5\nlab:\tnop\n\t.align 1<<x (lab)\n", ["value-out-of-bounds"])),
        "huge-value-in-message": ("a branch distance of 5934 digits in the out-of-bounds message hit Python's int-to-str limit (atheris campaign)", err("l:\tbeq 4 _ \"ab\"\n", ["branch-out-of-bounds"])),
        "self-include": ("a file including itself without .once exhausted the stack (reported by a sub-agent while seeding)", dict(err(None, ["recursive-include"], {"m.mac": "\tnop\n\t.include \"m.mac\"\n"}, ["m.mac"]), scratch=True)),
        "superscript-digit": ("str.isdigit() character that int() rejects", err("\t.word 1\u00b2\n", [])),
    },
    "C03": {
        "dynamic-register-forward": ("%sym register number defined later", equiv("\tclr (%fwd)+\nfwd = 3\n", "fwd = 3\n\tclr (%fwd)+\n", "\tclr (r3)+\n")),
        "dynamic-register-modes": ("%sym in other modes", ok("\tmov -(%a), @2(%b)\n\tldf %c, ac1\na = 1\nb = 2\nc = 3\n", w(0o014172, 2, 0o172503))),
    },
    "C11": {
        "own-definition-after-use": ("F12", {"kind": "expect", "tree": {"a.mac": "x == 1\n", "b.mac": "\t.byte x\nx = 5\n"}, "mains": ["a.mac", "b.mac"], "charset": "bk",
                                        "expect": {"kind": "ok", "base": None, "code": "05"}}),
        "own-label-after-use": ("F12 with a leading .link", {"kind": "expect", "tree": {"a.mac": "\t.link 2000\nq1::\tnop\n\t.word q1\n", "b.mac": "\t.word q1\nq1:\tnop\n"},
                                                            "mains": ["a.mac", "b.mac"], "charset": "bk", "expect": {"kind": "ok", "base": 0o2000, "code": w(0o240, 0o2000, 0o2006, 0o240)}}),
    },
    "C15": {
        "rad50-dotless-i": ("str.upper() folds U+0131 into 'I'", err("\t.rad50 /a\u0131b/\n", ["invalid-character"])),
        "rad50-ligature-st": ("str.upper() gives 'ST', str.index() found it as a substring", err("\t.rad50 /\ufb06/\n", ["invalid-character"])),
        "rad50-long-s": ("U+017F", err("\t.rad50 /\u017f/\n", ["invalid-character"])),
    },
    "C13": {
        "checksum-257-ff": ("F4", {"kind": "format", "fmt": "bk_wav", "base": 0o1000, "image": (b"\xff" * 257).hex(), "name": b"F4".ljust(16).hex()}),
        "checksum-turbo-514-ff": ("F4", {"kind": "format", "fmt": "bk_turbo_wav", "base": 0o1000, "image": (b"\xff" * 514).hex(), "name": b"F4".ljust(16).hex()}),
    },
}


def main():
    for pid, cases in CASES.items():
        d = os.path.join(HERE, "corpus", pid)
        os.makedirs(d, exist_ok=True)
        for name, (what, case) in cases.items():
            with open(os.path.join(d, name + ".json"), "w") as f:
                json.dump({"property": pid, "what": what, "case": case}, f, indent=1, sort_keys=True)
    print(sum(len(c) for c in CASES.values()), "corpus cases written")


if __name__ == "__main__":
    main()
