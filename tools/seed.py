#!/usr/bin/env python3
"""Seeded breaking changes written by independent sub-agents.

  tools/seed.py ingest C15            verify /tmp/wt-C15/{patchN.diff,demoN.py} myself and store them under seeded/C15-N/
  tools/seed.py run C15-1 [--props C15,C05] [--tier quick]    run checks against a scratch copy with the patch applied
  tools/seed.py all [--tier quick]    every stored seed against the property it breaks; prints a table

Nothing is ever applied to /repo itself; scratch copies live in /tmp and are removed.
"""
import argparse
import json
import os
import shutil
import subprocess
import sys
import tempfile

HERE = os.path.dirname(os.path.dirname(os.path.abspath(__file__)))
PY = "/venv/bin/python"


def sh(cmd, cwd, env=None, timeout=900):
    e = dict(os.environ)
    e.update(env or {})
    r = subprocess.run(cmd, cwd=cwd, env=e, capture_output=True, text=True, timeout=timeout)
    return r.returncode, (r.stdout + r.stderr)[-600:]


def ingest(pid, wt=None, start=1):
    wt = wt or f"/tmp/wt-{pid}"
    meta = json.load(open(os.path.join(wt, "meta.json")))
    env = {"PYTHONPATH": wt, "PYTHONDONTWRITEBYTECODE": "1"}
    for n, m in enumerate(meta, start):
        patch, demo = os.path.join(wt, m["patch"]), os.path.join(wt, m["demo"])
        log = []
        sh(["git", "checkout", "--", "pdpy11"], wt)
        rc, out = sh([PY, "-B", demo], wt, env)
        log.append(f"demo on unmodified tree: rc={rc}")
        ok = rc == 0
        rc, out = sh(["git", "apply", patch], wt)
        log.append(f"git apply: rc={rc}")
        ok = ok and rc == 0
        rc, out = sh([PY, "-m", "pytest", "-q", "-p", "no:cacheprovider", "tests/test_parser.py", "tests/test_types.py"], wt, env)
        log.append(f"pinned tests with patch: rc={rc} {out.strip().splitlines()[-1] if out.strip() else ''}")
        ok = ok and rc == 0
        rc, out = sh([PY, "-B", demo], wt, env)
        log.append(f"demo with patch: rc={rc}")
        ok = ok and rc != 0
        sh(["git", "checkout", "--", "pdpy11"], wt)
        name = f"{pid}-{n}"
        print(name, "CONFIRMED" if ok else "REJECTED", log)
        if not ok:
            continue
        d = os.path.join(HERE, "seeded", name)
        os.makedirs(d, exist_ok=True)
        shutil.copy(patch, os.path.join(d, "patch.diff"))
        shutil.copy(demo, os.path.join(d, "demo.py"))
        json.dump({"property": pid, "summary": m.get("summary"), "needs": m.get("needs"),
                   "agent_ran": m.get("ran"), "confirmed_by_me": log, "caught_by": None},
                  open(os.path.join(d, "meta.json"), "w"), indent=1)


def run(name, props, tier):
    sys.path.insert(0, os.path.join(HERE, "tools"))
    import mut
    res = mut.run_one({"name": name, "patch": f"seeded/{name}/patch.diff"}, props, tier)
    return res


def main():
    ap = argparse.ArgumentParser()
    ap.add_argument("cmd")
    ap.add_argument("args", nargs="*")
    ap.add_argument("--props")
    ap.add_argument("--tier", default="quick")
    ap.add_argument("-v", action="store_true")
    ap.add_argument("--wt")
    ap.add_argument("--start", type=int, default=1)
    a = ap.parse_args()
    if a.cmd == "ingest":
        ingest(a.args[0], a.wt, a.start)
    elif a.cmd == "verify":
        # demo passes on the current /repo tree and fails on a scratch copy with the patch applied
        sys.path.insert(0, os.path.join(HERE, "tools"))
        import mut
        names = a.args or sorted(n for n in os.listdir(os.path.join(HERE, "seeded")) if os.path.exists(os.path.join(HERE, "seeded", n, "patch.diff")))
        for name in names:
            demo = os.path.join(HERE, "seeded", name, "demo.py")
            import re
            d0 = mut.make_copy({"name": name + "-unpatched", "edits": []})
            open(os.path.join(d0, "demo.py"), "w").write(re.sub(r"/tmp/w[t\d]-C\d+", d0, open(demo).read()))
            rc0, out0 = sh([PY, "-B", os.path.join(d0, "demo.py")], d0, {"PYTHONPATH": d0, "PYTHONDONTWRITEBYTECODE": "1"})
            shutil.rmtree(d0, ignore_errors=True)
            try:
                d = mut.make_copy({"name": name, "patch": f"seeded/{name}/patch.diff"})
            except SystemExit as ex:
                print(f"{name}: PATCH-DOES-NOT-APPLY ({ex})")
                continue
            try:
                # the demos put their own worktree path first on sys.path: run them from a copy inside the scratch tree
                shutil.copy(demo, os.path.join(d, "demo.py"))
                src = open(os.path.join(d, "demo.py")).read()
                import re
                src = re.sub(r"/tmp/w[t\d]-C\d+", d, src)
                open(os.path.join(d, "demo.py"), "w").write(src)
                rc1, out = sh([PY, "-B", os.path.join(d, "demo.py")], d, {"PYTHONPATH": d, "PYTHONDONTWRITEBYTECODE": "1"})
            finally:
                shutil.rmtree(d, ignore_errors=True)
            print(f"{name}: demo on current tree rc={rc0}, with patch rc={rc1} -> {'OK' if rc0 == 0 and rc1 != 0 else 'CHECK'}")
    elif a.cmd == "run":
        name = a.args[0]
        props = a.props.split(",") if a.props else [name.split("-")[0]]
        for pid, (rc, nv, tail) in run(name, props, a.tier).items():
            print(tail)
            print(f"{name} {pid}: rc={rc} violations={nv}")
    elif a.cmd == "all":
        bad = 0
        rows = []
        for name in sorted(os.listdir(os.path.join(HERE, "seeded"))):
            if not os.path.exists(os.path.join(HERE, "seeded", name, "patch.diff")):
                continue
            pid = name.split("-")[0]
            if a.props and pid not in a.props.split(","):
                continue
            if not os.path.exists(os.path.join(HERE, "vf", "props", pid.lower() + ".py")):
                print(f"{'NO-CHECK-YET':14s} {pid} {name}")
                continue
            try:
                res = run(name, [pid], a.tier)
            except SystemExit as ex:
                print(f"{'PATCH-FAILED':14s} {pid} {name} ({ex})")
                bad += 1
                continue
            for p, (rc, nv, tail) in res.items():
                status = "CAUGHT" if rc == 1 else ("MISSED" if rc == 0 else "HARNESS-ERROR")
                bad += rc != 1
                print(f"{status:14s} {p} {name}")
                try:
                    meta = json.load(open(os.path.join(HERE, "seeded", name, "meta.json")))
                except (OSError, ValueError):
                    meta = {}
                rows.append((name, p, status, (meta.get("summary") or "")[:160].replace("\n", " ").replace("|", "/")))
                if a.v and rc != 1:
                    print(tail)
            sys.stdout.flush()
        if not a.props:
            with open(os.path.join(HERE, "seeded", "RESULTS.md"), "w") as f:
                f.write("# Seeded changes (independent sub-agents) against the check of the property they break\n\n")
                f.write(f"tier: {a.tier}; regenerate with `python3 tools/seed.py all`\n\n| seed | check | result | change |\n|---|---|---|---|\n")
                for r in rows:
                    f.write("| " + " | ".join(r) + " |\n")
        sys.exit(1 if bad else 0)


if __name__ == "__main__":
    main()
