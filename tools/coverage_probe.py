#!/venv/bin/python
"""Which lines of /repo/pdpy11 do the checks' generators reach?  (diagnostic tool, not a check)

Runs a reduced version of every shard kind of every property in-process under coverage.py and prints, per source file,
the executable lines never reached.  Forked CLI children are not measured (they leave through os._exit).
"""
import os
import sys

HERE = os.path.dirname(os.path.dirname(os.path.abspath(__file__)))
for deps in (os.path.join(HERE, ".deps"), "/verif/.deps"):
    if os.path.isdir(deps):
        sys.path.insert(0, deps)
        break
sys.path.insert(0, HERE)
import coverage  # noqa

cov = coverage.Coverage(source=["/repo/pdpy11"], data_file=None)
cov.start()
from vf import core  # noqa
import importlib  # noqa

props = sys.argv[1:] or [f"C{i:02d}" for i in range(1, 20)]
for pid in props:
    mod = importlib.import_module("vf.props." + pid.lower())
    seen = set()
    for spec in mod.shards("quick"):
        key = (spec.get("part"), spec.get("variant"), spec.get("sub"), spec.get("source"))
        if key in seen or spec.get("part") in ("atheris", "hashseeds"):
            continue
        seen.add(key)
        spec = dict(spec)
        for k in ("examples", "machines", "variants"):
            if k in spec:
                spec[k] = min(spec[k], 25)
        if "hi" in spec and "lo" in spec:
            spec["hi"] = min(spec["hi"], spec["lo"] + 600)
        ctx = core.ShardCtx(pid, "quick", 1, spec, [])
        try:
            mod.run_shard(spec, ctx)
        except Exception as ex:  # noqa
            print(f"{pid} {key}: {type(ex).__name__}: {ex}", file=sys.stderr)
    print(pid, "done", file=sys.stderr)
cov.stop()
import io  # noqa
buf = io.StringIO()
cov.report(file=buf, show_missing=True)
print(buf.getvalue())
