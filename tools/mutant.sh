#!/bin/sh
# usage: tools/mutant.sh <patch-or-sed-script> <ID> [tier]
# Copies /repo to a scratch dir, applies the patch (git apply) and runs ./check ID against it.
set -e
HERE="$(cd "$(dirname "$0")/.." && pwd)"
PATCH="$1"; ID="$2"; TIER="${3:-quick}"
D="$(mktemp -d /tmp/mut-XXXXXX)"
trap 'rm -rf "$D"' EXIT
cp -r /repo/pdpy11 "$D/pdpy11"
(cd "$D" && git init -q . 2>/dev/null && git apply --unsafe-paths "$PATCH") || { echo "PATCH-FAILED"; exit 3; }
set +e
VERIF_REPO="$D" "$HERE/check" "$ID" --tier "$TIER"
RC=$?
echo "mutant rc=$RC"
exit $RC
