#!/usr/bin/env python3
"""Port a seeded change onto the current /repo tree: tools/rebase_seed.py NAME FILE OLD NEW [FILE OLD NEW ...]
Keeps the agent's patch as patch.orig.diff and writes the ported one as patch.diff."""
import json, os, shutil, subprocess, sys, tempfile
HERE = os.path.dirname(os.path.dirname(os.path.abspath(__file__)))
name = sys.argv[1]
edits = sys.argv[2:]
d = tempfile.mkdtemp(prefix="rb-", dir="/tmp")
for side in "ab":
    shutil.copytree("/repo/pdpy11", f"{d}/{side}/pdpy11", ignore=shutil.ignore_patterns("__pycache__"))
for i in range(0, len(edits), 3):
    f, old, new = edits[i:i + 3]
    p = f"{d}/b/{f}"
    s = open(p).read()
    assert s.count(old) == 1, (f, old, s.count(old))
    open(p, "w").write(s.replace(old, new))
r = subprocess.run(["diff", "-ruN", "a/pdpy11", "b/pdpy11"], cwd=d, capture_output=True, text=True)
sd = os.path.join(HERE, "seeded", name)
if not os.path.exists(os.path.join(sd, "patch.orig.diff")):
    shutil.copy(os.path.join(sd, "patch.diff"), os.path.join(sd, "patch.orig.diff"))
open(os.path.join(sd, "patch.diff"), "w").write(r.stdout)
m = json.load(open(os.path.join(sd, "meta.json")))
m["rebased"] = "patch.diff is the agent's change ported by hand onto the tree with the fix:/hook commits; patch.orig.diff is the original against the pinned commit"
json.dump(m, open(os.path.join(sd, "meta.json"), "w"), indent=1)
shutil.rmtree(d)
print(r.stdout)
