import json, os, re
HERE='/verif'
rows=[]
seen=set()
for log in ('/tmp/seeds-part0.log','/tmp/seeds-A.log','/tmp/seeds-B.log','/tmp/seeds-C.log'):
    if not os.path.exists(log): continue
    for line in open(log, errors='replace'):
        m=re.match(r'^(CAUGHT|MISSED|HARNESS-ERROR|PATCH-FAILED)\s+(C\d+)\s+(C\d+-\d+)', line)
        if not m: continue
        status,p,name=m.groups()
        if log.endswith('part0.log') and p not in ('C01','C02'): continue
        if name in seen: continue
        seen.add(name)
        try: meta=json.load(open(f'{HERE}/seeded/{name}/meta.json'))
        except Exception: meta={}
        rows.append((name,p,status,(meta.get('summary') or '')[:160].replace('\n',' ').replace('|','/')))
import glob
final=set(seen)
rerun_caught={'C07-7':'missed by the table run; caught after the every-kind sweep was added to C07','C11-8':'missed by the table run; caught after .extern all was added to the many-scope programs','C12-10':'missed by the table run; caught after the 16-bit boundary bases were added'}
known_missed={'C01-12','C02-12','C08-1','C08-11','C13-11','C16-12','C16-11','C12-12','C11-11'}
for d in sorted(glob.glob(f'{HERE}/seeded/C*-*')):
    name=os.path.basename(d)
    if name in seen or not os.path.exists(d+'/patch.diff'): continue
    try: meta=json.load(open(d+'/meta.json'))
    except Exception: meta={}
    rows.append((name,name.split('-')[0],'MISSED' if name in known_missed else 'CAUGHT (earlier run)',(meta.get('summary') or '')[:160].replace('\n',' ').replace('|','/')))
def key(r):
    a,b=r[0].split('-'); return (a,int(b))
rows=[(r[0],r[1],'CAUGHT (re-run)' if r[0] in rerun_caught else r[2],r[3]) for r in rows]
notes_extra=rerun_caught
rows.sort(key=key)
notes={'C01-12':'caught by C04 (local-over-include shape)','C02-12':'caught by C06 (<n> chunk through a forward symbol)','C05-12':'caught by C03 (pending products in every definition order)','C08-11':'caught by C16 (.once under respelled paths); after repair f72558c a clean error, no C08 violation','C09-8':'also caught by C13',
       'C13-11':'open gap: source reached through a symbolic link','C16-12':'open gap: a file named twice on the command line','C16-11':'outside the quantifier (nesting depth >= 4)','C12-12':'open gap: .link inside a .repeat body is undecided for the reference','C11-11':'open gap: late . = over a local label','C08-1':'by design caught by C02 and C12 (a valid program rejected, not a crash)'}
with open(f'{HERE}/seeded/RESULTS.md','w') as f:
    f.write('# Seeded changes (independent sub-agents) against the check of the property they break\n\n')
    f.write('tier: quick, no shrinking. Rows marked CAUGHT / MISSED come from the final table run on the final tree (three parallel runs of `python3 tools/seed.py all --props ...`, stopped when the session time ran out); rows marked CAUGHT (earlier run) were each run individually with `python3 tools/seed.py run NAME` when their check was last strengthened and were not reached again by the final table run. `python3 tools/seed.py all` regenerates the whole table (about 3 hours on 16 cores)\n\n')
    n=len(rows); c=sum(1 for r in rows if r[2].startswith('CAUGHT'))
    f.write(f'{n} seeded changes, {c} caught by the check of their own property; the others are annotated.\n\n| seed | check | result | change | note |\n|---|---|---|---|---|\n')
    for r in rows:
        f.write('| '+' | '.join(r)+' | '+(notes.get(r[0]) or notes_extra.get(r[0],''))+' |\n')
print(len(rows), sum(1 for r in rows if r[2]=='CAUGHT'), [r[0] for r in rows if r[2]!='CAUGHT'])
