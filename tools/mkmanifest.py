#!/usr/bin/env python3
"""Regenerates MANIFEST.json from the table below (run after adding a property module)."""
import json
import os

HERE = os.path.dirname(os.path.dirname(os.path.abspath(__file__)))

CHECKS = {
    "C01": dict(
        category="exploration",
        technique="exhaustive operand-form enumeration + Hypothesis programs, differential against an independent PDP-11 encoder and decoder",
        text="Every accepted mnemonic (set compared with the reference in both directions) is assembled with every operand-form tuple of its "
             "format (all single-operand forms, all register/accumulator fields, every inline value with its rejected neighbours; the 66x66 "
             "double-operand product sampled at 6% in the quick tier and complete in the thorough tier) and the image is compared with an "
             "independently written encoder and, separately, read back by an independent decoder at statement boundaries. Random programs "
             "vary operand values (16-bit boundaries, out-of-range values that must be refused), symbolic spelling, labels, link bases, "
             "register/radix spellings and .repeat groups. Exploration level: form coverage is complete, value coverage is sampled.",
        note="Trusted: vf/ref/pdp11.py written from the handbook (231 rows independent, 21 pinned rows are change detection only).",
        design="4/C01"),
    "C02": dict(
        category="exploration",
        technique="Hypothesis program generation, differential against a reference assembler, plus a model-free trace invariant through the guarded hook",
        text="Generated programs over every size-bearing statement kind (late-sized statements, nested repeats, includes to depth 3, "
             "inserted binaries, 1-3 linked files, even and odd bases) are assembled by pdpy11 and by an independent lazy reference "
             "assembler; base, image and every symbol value must agree. Independently of any model, the PDPY11_VERIF trace lets the "
             "check assert the property literally: the bytes at the address each statement was given are the bytes it produced, and the "
             "leaf statements tile the image without gap or overlap; the same invariant and the recorded out.bin are checked on the 21 "
             "practice programs. Programs the reference cannot decide (dependency cycles) are counted and skipped.",
        note="Trusted: vf/model.py, vf/ref/*; the hook only appends to a list. Time-budget hits (10 s per program) are counted as inconclusive.",
        design="4/C02"),
    "C03": dict(
        category="exploration",
        technique="metamorphic Hypothesis testing (move / permute definitions), corpus text surgery, enumerated definition chains against a big-integer evaluator",
        text="Generated programs and the 21 practice programs are assembled before and after moving position-independent constant "
             "definitions to other top-level positions (single moves, permutations, all-to-front, all-to-back); outcome class, base and "
             "bytes must not change, and for generated programs they must equal the reference assembler's. Definition chains of depth "
             "300 (additive) and 30 (non-linear) in forward, reverse and shuffled order are used from seven operand/directive positions "
             "and checked against exact integer arithmetic. Evidence counts how many moves actually crossed a use of the moved symbol.",
        note="Trusted: the notion of position independence (no '.' and no local label in the expression), vf/model.py for the second oracle.",
        design="4/C03"),
    "C04": dict(
        category="exploration",
        technique="exhaustive enumeration of branch/SOB distances x operand shapes + Hypothesis relative-operand programs, checked by an independent PDP-11 decoder and an accept/reject table",
        text="All 17 branch mnemonics at every byte distance -300..+300 and SOB at -140..+6 are assembled in nine source shapes (labels with "
             "filler, label+-k in three radices, .+-k, local labels, inside .repeat) and judged against the harness' own accept/reject table "
             "in both directions; every accepted word is decoded independently and must reach the source target. Random programs put "
             "relative and relative-deferred operands in every operand position (after 0 or 1 extension words, also in .repeat copies) "
             "with targets and link bases anywhere in the 64 KiB space including wrap-around. The distance domain is enumerated "
             "completely; operand positions and targets are sampled.",
        note="Trusted: vf/ref/pdp11.py decoder; the accept rule 'even and -256..254 / -126..0 from .+2'.",
        design="4/C04"),
    "C05": dict(
        category="exploration",
        technique="Hypothesis recursive expression trees + exhaustive operator-pair enumeration, differential against an independent big-integer evaluator",
        text="Expression trees up to depth 6 over all operators are rendered with only the grouping C precedence and left associativity "
             "demand (so pdpy11's own precedence table decides the value), with drawn literal spellings, grouping styles, symbolic and "
             "address-valued leaves, and the emitted .dword/.word/immediate/index words are compared with an independent evaluator; "
             "planted /0, %0, negative shift counts, 8/9 digit strings and |v| >= 2^32 must be refused. All 144 ordered operator pairs "
             "are additionally enumerated over a fixed operand set. Sampling, not proof: evidence reports the operator-pair matrix reached.",
        note="Trusted: vf/ref/expr.py, vf/render.py (minimal-grouping renderer).",
        design="4/C05"),
    "C06": dict(
        category="exploration",
        technique="Hypothesis directive programs + enumeration of every escape/boundary/alignment form against the directive rules and Python's codecs",
        text="Programs of 1-5 data directives at a steered address residue are compared byte for byte with the property's own rules "
             "(value mod 2^n, word order, codec bytes, exact zero fill) and the must-fail set is asserted in both directions; 70% of "
             "programs are clean, 30% carry one planted refusal so that a single identifier is checked. Deterministic parts enumerate "
             "every escape x charset x quote, every <n> in -2..257, every boundary value, every count boundary, word data at every "
             "parity with 0-3 operands, and .even/.odd/.align m for every m in 1..64 at every residue.",
        note="Trusted: Python codecs for utf-8/koi8-r/latin-1/cp866; for bk only ASCII, U+0080-9F and KOI8 letters (rest is C14).",
        design="4/C06"),
    "C07": dict(
        category="fault_enumeration",
        technique="fault catalogue planting + Hypothesis CLI configurations; model iff, observation iff, directory-snapshot oracle and metamorphic comparison across report formats and -W lists",
        text="Programs with 0-3 planted faults from the calibrated catalogue (parse-time, compile-time, link-time, critical, warning-only) "
             "are run through the real CLI entry point in 4-8 configurations (graphical/bare x drawn -W lists) with drawn output "
             "selections and --lst. Exit status must be non-zero iff an error-severity fault was planted and iff an error diagnostic was "
             "printed; a failing run must leave the directory snapshot untouched; a succeeding run must create exactly the predicted "
             "files holding the container of the image; status, file set and bytes must not depend on the configuration. The "
             "output-phase failure class (unwritable output) is generated separately: its non-atomicity is the recorded known finding F-io.",
        note="Trusted: severities in vf/mutate.py; the forked-child CLI driver (cross-checked against a real subprocess in C13).",
        design="4/C07"),
    "C08": dict(
        category="exploration",
        technique="grammar-based Hypothesis generation with fault planting and token/character mutation, corpus mutation, and (thorough) coverage-guided atheris fuzzing with a structured decoder; crash bucketing, watchdog with hang confirmation",
        text="Texts of grammar G - rendered model programs with planted catalogue faults and up to 8 token/character mutations, and mutated "
             "windows of the practice corpus and of the repository's own compiler-test snippets - are assembled under both report "
             "handlers; the outcome must be success or failure with an error diagnostic. Any other exception (bucketed by type and "
             "innermost pdpy11 frame), a silent failure, a handler-dependent outcome, or a run that still has no result after 60 s in a "
             "fresh process is a violation; a 5 s watchdog hit alone is only counted. The thorough tier adds 16 five-minute atheris "
             "campaigns (empty and seeded corpus) whose bytes drive the same mutators. Termination is decided only in the bounded "
             "sense stated.",
        note="Trusted: the bucketing rule and the slow-finite classification (pdpy11's documented exponential cost of padding directives); "
             "findings repaired so far are listed in known_findings.json (fixed).",
        design="4/C08"),
    "C09": dict(
        category="exploration",
        technique="Hypothesis programs assembled at three bases: metamorphic relocation law plus differential against the reference assembler",
        text="Each generated program (address-aliasing constants, label differences, relative and absolute self-references, includes, "
             "late .link) is assembled at three bases including ones whose addresses pass 0o177777. The law is asserted on pdpy11's own "
             "images: a word differs between two bases iff the reference marks it as an absolute address word, then by exactly the base "
             "difference; everything else is byte-identical. Each image is also compared with the reference, which predicts the bases "
             "that must be refused because an address word would exceed 16 bits.",
        note="Trusted: vf/model.py (affine base tracking). Bases are multiples of 0o100 so that padding does not depend on the base.",
        design="4/C09"),
    "C10": dict(
        category="exploration",
        technique="metamorphic Hypothesis testing: two independently drawn spellings of one model program; token-span respelling of the practice corpus",
        text="Every generated model program is rendered under two independently drawn compositions of the rewrite rules the property "
             "lists (22 rule classes: case, blanks, comments, radix, grouping, register spellings, synonyms, implicit .word, legacy "
             "@rN, aliases, ! and ^C, quotes) and both texts must assemble to the same outcome, base and bytes (also equal to the "
             "reference assembler). The 21 practice programs are respelled on pdpy11's own token spans and must keep their recorded "
             "image. Evidence reports per rule how many pairs exercised it.",
        note="Trusted: the soundness of each rewrite rule in vf/render.py / c10.corpus_edits (each is one the property names).",
        design="4/C10"),
    "C11": dict(
        category="exploration",
        technique="Hypothesis programs with planned name reuse across scopes, files and include trees, differential against the reference resolution rule",
        text="A planning generator decides which file instance (1-3 linked files, include trees to depth 3) defines and exports which of four "
             "deliberately reused names (private, '::', '==', '.extern name' before/after, '.extern all' before/middle/after) and reuses "
             "three local-label numbers in many scopes; references come from bytes, immediates, words, relative and indexed operands, "
             "before and after definitions and exporting files, with and without a leading .link (eager and late evaluation). 10% of the "
             "programs carry one planted fault (invisible reference, duplicate definition, duplicate export). The reference assembler "
             "implements the property's resolution rule and predicts image, every symbol value, or the error identifier.",
        note="Trusted: the resolution rule in vf/model.py (lookup / export / build_block).",
        design="4/C11"),
    "C12": dict(
        category="exploration",
        technique="Hypothesis link-expression programs, differential against a reference assembler with affine base tracking",
        text="Programs of 1-3 files whose link expression is K + sum k_i*(L_i - L_j) in eight spellings (direct, difference symbols, alias "
             "symbols, shifts, division, split coefficients), as .link anywhere in the first file or a leading '. =', together with the "
             "no-directive, two-directive and genuinely self-dependent cases, and '. =' skips of every size 0..64 forward / 1..64 backward "
             "in four spellings. The reference tracks the coefficient of the base exactly, so it knows which expressions must assemble "
             "(with which value) and which must be refused (and with which identifier).",
        note="Trusted: vf/model.py + vf/ref/expr.py affine arithmetic; identifiers address-conflict / recursive-definition / value-out-of-bounds.",
        design="4/C12"),
    "C16": dict(
        category="exploration",
        technique="metamorphic Hypothesis testing: structured form vs flattened form of the same program (repeat/unrolled, linked/concatenated, insert_file/.byte, .end/truncated, .once/single include)",
        text="Five equivalences are generated as pairs of programs and assembled by pdpy11; outcome class, base and bytes must agree, and "
             "the flattened form must equal the reference assembler. Repeat bodies are weighted toward what makes copies differ or "
             "syntax trees be rewritten ('.'-dependent operands, indexed operands with compound symbolic offsets, / % << >> on '.', "
             "branches to .+-k and outside labels, nesting to depth 3, counts 0-40 literal or defined later); .end is followed by "
             "arbitrary, also unparseable, text in main, linked and included files.",
        note="Trusted: the flattening transformations in vf/props/c16.py; vf/model.py for the second oracle.",
        design="4/C16"),
    "C13": dict(
        category="exploration",
        technique="Hypothesis + enumeration of image lengths through the container writers, checked by independent readers/demodulators; Hypothesis CLI configurations with a file-set oracle",
        text="Format level: random and constructed images (special byte sums), every image length 0..520 (quick) / 0..4096 (thorough), "
             "all bases and tape names go through the raw, bin, WAV and turbo-WAV writers and are read back by an independent .bin reader, "
             "a RIFF validator and two run-length demodulators that recover header, payload and the end-around-carry checksum. Path "
             "level: generated sources with every output selector and path form run through the real CLI entry point in a forked child; "
             "the set of created/modified files must be exactly the predicted one and each file must hold the container of the image "
             "that an in-process assembly yields; 5% of the runs are cross-checked against a real subprocess.",
        note="Trusted: vf/ref/codecs.py (BK-0010 tape structure; turbo format by its documented constants), the path rules stated in the property.",
        design="4/C13"),
    "C17": dict(
        category="fault_enumeration",
        technique="fault catalogue enumeration x Hypothesis placement and prefix generation; positions recomputed by the harness",
        text="98 catalogued fault kinds (81 error/critical, 17 warning), each with the token at which pdpy11 documents the diagnostic, are "
             "planted at every placement class (main first/middle/last, inside .repeat, in an included file, in the 2nd and 3rd linked "
             "file) - once exhaustively with fixed surroundings and CLI renderings, then with Hypothesis-drawn surroundings (tabs, "
             "non-ASCII comments and strings, labels and tabs on the culprit's line). Every diagnostic of every run is checked for "
             "file/text/range consistency; the planted one must start at the culprit's offset, render as the line:column the harness "
             "computes (tab = 4), and show up at that position in the CLI's bare and graphical output.",
        note="Trusted: the anchor table in vf/mutate.py (calibrated against the repaired tree; it encodes which token each diagnostic documents).",
        design="4/C17"),
    "C18": dict(
        category="exploration",
        technique="Hypothesis rule-based state machine over a long-lived interpreter with a probe-set invariant against fresh-process baselines; hash-seed differential in subprocesses",
        text="A state machine draws histories of up to 50 assemblies (valid, with errors, critically aborted, crashing half way through a "
             "raising report handler, through the CLI entry point) that deliberately reuse the probe set's file names and include paths; "
             "after every step 12 probes are re-assembled and each result - outcome, base, bytes, output directives, every diagnostic "
             "with severity, identifier, file and offsets, and for the CLI probe exit status, stdout and written files - must equal what a "
             "fresh interpreter (one per probe) returned. Separately the probes and 60/200 generated programs are assembled in fresh "
             "processes under PYTHONHASHSEED 0..N and random and must agree.",
        note="Trusted: the fresh-process baseline. Interleavings are bounded by the drawn histories (135 in the quick tier); class-level state of a broken tree persists within a shard's process, which is what the check wants to see.",
        design="4/C18"),
    "C19": dict(
        category="exploration",
        technique="Hypothesis multi-file programs run through the CLI with --lst; the listing is parsed and compared with the reference assembler's symbol tables and with the image",
        text="Programs of 1-3 files plus includes, whose labels are followed by unique marker words and whose constants take negative, "
             "zero, boundary, > 16-bit and > 32-bit and tied values, are assembled through the CLI entry point with every output "
             "selector. The .lst is parsed (file blocks, 'octal-value name' lines): names per file must equal the reference symbol table "
             "exactly once each, values must be octal numerals of the reference values, lines ordered by (value, name), label values "
             "must index their marker word in the image, and exactly one listing must appear beside an output file and named after it "
             "(none without an output).",
        note="Trusted: vf/model.py symbol tables; both readings of 'named after it with .lst' and both anchors (-o / first directive) are accepted.",
        design="4/C19"),
    "C14": dict(
        category="exploration",
        technique="exhaustive enumeration (256 bytes, 0x110000 code points) + Hypothesis strings against Python's koi8-r/ASCII and the round-trip law",
        text="Every byte value and every Unicode code point is pushed through the codec and compared with ASCII, Python's KOI8-R and the "
             "round-trip law; every table character is also assembled through .ascii and 'c. Random strings with offenders at drawn "
             "positions check the error position and that the assembler turns the refusal into an invalid-character error. The byte and "
             "code point domains are finite and enumerated completely.",
        note="Trusted: Python's koi8-r codec, the single documented alias U+00A4->0x24, the in-process driver.",
        design="4/C14"),
    "C15": dict(
        category="exploration",
        technique="exhaustive enumeration + Hypothesis property-based testing against an independent RADIX-50 packer/unpacker",
        text="All 64000 triples through .rad50 and all 60879 non-blank 1-3 character strings through ^R (both letter cases), every <n> code "
             "-1..64 in every position, are assembled and compared with an independently written packer and the standard unpacking "
             "algorithm; random chunked strings with foreign characters check the must-fail classes. The finite part of the domain is "
             "covered completely, which is the strongest statement this technique can make.",
        note="Trusted: vf/ref/codecs.py (DEC alphabet, (c1*40+c2)*40+c3), the in-process driver mirroring main_cli.",
        design="4/C15"),
}

PENDING_REASON = "check not built yet in this revision of /verif (work in progress; see DESIGN.md section 4 for the planned generated check)"


def main():
    props = [json.loads(l) for l in open(os.path.join(HERE, "properties.jsonl"))]
    checks = []
    na = []
    for p in props:
        pid = p["id"]
        if pid in CHECKS and os.path.exists(os.path.join(HERE, "vf", "props", pid.lower() + ".py")):
            c = CHECKS[pid]
            checks.append({
                "property_id": pid,
                "quick_cmd": f"./check {pid} --tier quick",
                "thorough_cmd": f"./check {pid} --tier thorough",
                "evidence_file": f"evidence/{pid}.json",
                "replay_cmd_template": f"./check {pid} --replay {{path}}",
                "engine": "vf",
                "level_claimed": {"category": c["category"], "text": c["text"], "design_ref": "DESIGN.md section " + c["design"]},
                "level_note": c["note"],
                "technique": c["technique"],
            })
        else:
            na.append({"property_id": pid, "reason": PENDING_REASON})
    manifest = {
        "version": 1,
        "setup_cmd": "/venv/bin/pip install -q --no-index --find-links /opt/veriftools/wheels --target .deps hypothesis atheris",
        "hooks": {
            "guard": "PDPY11_VERIF",
            "enable": "export PDPY11_VERIF=1 before importing pdpy11 (checks set it themselves where they need the trace)",
            "baseline_off_cmd": "cd /repo && env -u PDPY11_VERIF /venv/bin/python -m pytest -ra -q -p no:cacheprovider --timeout=900 --continue-on-collection-errors",
            "source_commits": ["926ef0e"],
            "add_only": True,
        },
        "engines": [{
            "name": "vf",
            "path": "vf/",
            "serves_properties": [c["property_id"] for c in checks],
            "kind_free_text": "Hypothesis property-based testing, exhaustive enumeration of finite sub-domains and atheris fuzzing against "
                              "independent reference models (PDP-11 encoder/decoder, expression evaluator, reference assembler, container "
                              "demodulators); 16-way sharded runner with replay files",
        }],
        "checks": checks,
        "not_applicable": na,
        "notes": "Entry point ./check <ID> --tier quick|thorough [--replay FILE]; VERIF_SEED selects the seed; VERIF_REPO overrides /repo "
                 "(used by the mutant tools only). Exit 0 held / 1 VIOLATION / 2 harness error.",
    }
    if not na:
        del manifest["not_applicable"]
    with open(os.path.join(HERE, "MANIFEST.json"), "w") as f:
        json.dump(manifest, f, indent=1)
    print(f"{len(checks)} checks, {len(na)} not yet claimed")


if __name__ == "__main__":
    main()
