#!/usr/bin/env python3
"""Sensitivity suite: apply a textual mutation to a scratch copy of /repo/pdpy11 and run checks against it.

  tools/mut.py list
  tools/mut.py run <name> [--tier quick] [--props C01,C04]     one mutant from tools/mutants.json
  tools/mut.py all [--only C05] [--jobs 4]                      every mutant; prints a table
  tools/mut.py adhoc <file> <old> <new> <ID>                    one-off

A mutant: {"name":..., "file":"pdpy11/x.py", "old":..., "new":..., "props":["C05"], "count":1}
The scratch copy lives under /tmp and is removed afterwards; /repo is never touched.
"""
import argparse
import json
import os
import shutil
import subprocess
import sys
import tempfile

HERE = os.path.dirname(os.path.dirname(os.path.abspath(__file__)))
REPO = "/repo"


def make_copy(m):
    d = tempfile.mkdtemp(prefix="mut-", dir="/tmp")
    shutil.copytree(os.path.join(REPO, "pdpy11"), os.path.join(d, "pdpy11"),
                    ignore=shutil.ignore_patterns("__pycache__"))
    os.symlink(os.path.join(REPO, "tests"), os.path.join(d, "tests"))   # practice corpus and resources, read-only use
    if "patch" in m:
        subprocess.run(["git", "init", "-q", d], check=True)
        r = subprocess.run(["git", "-C", d, "apply", "--unsafe-paths", os.path.join(HERE, m["patch"])], capture_output=True)
        if r.returncode != 0:
            # the context moved (later fix: commits nearby): let patch(1) look for it
            with open(os.path.join(HERE, m["patch"]), "rb") as pf:
                r = subprocess.run(["patch", "-p1", "-F3", "-s", "--no-backup-if-mismatch", "-d", d], stdin=pf, capture_output=True)
        if r.returncode:
            shutil.rmtree(d)
            raise SystemExit(f"patch {m['patch']} does not apply")
        return d
    edits = m["edits"] if "edits" in m else [m]
    for e in edits:
        path = os.path.join(d, e["file"])
        src = open(path).read()
        n = src.count(e["old"])
        if n != e.get("count", 1):
            shutil.rmtree(d)
            raise SystemExit(f"mutant {m.get('name')}: pattern occurs {n} times in {e['file']}, expected {e.get('count', 1)}")
        open(path, "w").write(src.replace(e["old"], e["new"]))
    # must still import
    r = subprocess.run(["/venv/bin/python", "-B", "-c", "import pdpy11._cli"], cwd=d, env={**os.environ, "PYTHONPATH": d},
                       capture_output=True, text=True)
    if r.returncode:
        shutil.rmtree(d)
        raise SystemExit(f"mutant {m.get('name')} does not import: {r.stderr[-400:]}")
    return d


def run_one(m, props, tier):
    d = make_copy(m)
    res = {}
    try:
        for pid in props:
            env = dict(os.environ, VERIF_REPO=d, VERIF_EVIDENCE_DIR=os.path.join(d, "evidence"), VERIF_REPLAY_DIR=os.path.join(d, "replays"), VERIF_NO_SHRINK="1")
            r = subprocess.run([os.path.join(HERE, "check"), pid, "--tier", tier], env=env, capture_output=True, text=True)
            viol = [l for l in r.stdout.splitlines() if l.startswith("VIOLATION")]
            res[pid] = (r.returncode, len(viol), r.stdout[-1500:] + r.stderr[-800:])
    finally:
        shutil.rmtree(d, ignore_errors=True)
    return res


def load():
    with open(os.path.join(HERE, "tools", "mutants.json")) as f:
        return json.load(f)


def main():
    ap = argparse.ArgumentParser()
    ap.add_argument("cmd")
    ap.add_argument("args", nargs="*")
    ap.add_argument("--tier", default="quick")
    ap.add_argument("--props")
    ap.add_argument("--only")
    ap.add_argument("--start", help="skip mutants before this name")
    ap.add_argument("-v", action="store_true")
    a = ap.parse_args()
    if a.cmd == "list":
        for m in load():
            print(m["name"], m["props"])
    elif a.cmd == "adhoc":
        f, old, new, pid = a.args
        res = run_one({"name": "adhoc", "file": f, "old": old, "new": new}, [pid], a.tier)
        for pid, (rc, nv, tail) in res.items():
            print(tail)
            print(f"{pid}: rc={rc} violations={nv}")
    elif a.cmd == "run":
        ms = [m for m in load() if m["name"] == a.args[0]]
        if not ms:
            raise SystemExit("no such mutant")
        props = a.props.split(",") if a.props else ms[0]["props"]
        res = run_one(ms[0], props, a.tier)
        for pid, (rc, nv, tail) in res.items():
            print(tail)
            print(f"{ms[0]['name']} {pid}: rc={rc} violations={nv}")
    elif a.cmd == "all":
        bad = 0
        rows = []
        started = not a.start
        for m in load():
            if not started:
                started = m["name"] == a.start
                if not started:
                    continue
            props = [p for p in m["props"] if not a.only or p == a.only]
            if not props:
                continue
            try:
                res = run_one(m, props, a.tier)
            except SystemExit as ex:
                print(f"{'STALE-MUTANT':14s} {m['name']}: {ex}")
                bad += 1
                continue
            for pid, (rc, nv, tail) in res.items():
                status = "CAUGHT" if rc == 1 else ("MISSED" if rc == 0 else "HARNESS-ERROR")
                if rc != 1:
                    bad += 1
                print(f"{status:14s} {pid} {m['name']}")
                rows.append((m["name"], pid, status, (m.get("file") or m.get("patch") or "")))
                if a.v and rc != 1:
                    print(tail)
            sys.stdout.flush()
        if not a.only and not a.start:
            with open(os.path.join(HERE, "tools", "MUTANTS.md"), "w") as f:
                f.write("# Sensitivity mutants (tools/mutants.json) against the checks they are aimed at\n\n")
                f.write(f"tier: {a.tier}; regenerate with `python3 tools/mut.py all`\n\n| mutant | check | result | file |\n|---|---|---|---|\n")
                for r in rows:
                    f.write("| " + " | ".join(r) + " |\n")
        sys.exit(1 if bad else 0)


if __name__ == "__main__":
    main()
